//! See Cargo.toml: the surface macro is expanded here so that the library's generic code it
//! instantiates is compiled - and instrumented - as part of this crate.
vcore::impl_surface!(s_sim, mv_sim);
