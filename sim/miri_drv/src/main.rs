//! Engine E2 driver. One process = one execution. Under Miri
//! (`cargo +nightly miri run`, isolation on) thread scheduling, `getrandom`
//! (hence ahash's keys) and allocation addresses all derive from
//! `-Zmiri-seed`, so one seed is one exactly repeatable execution of the REAL
//! rayon / crossbeam / ahash code, with data-race and UB detection.
//!
//!   miri_drv c09 <verif_seed> <case_index> <threads> <max_n> <op,op,...>
//!   miri_drv c20 <verif_seed> <first_set> <n_sets> <max_points>
//!
//! Exit 0: held; exit 1: mismatch (a line `E2-MISMATCH ...` says where).

vcore::impl_surface!(s_seq, mv_seq);
vcore::impl_surface!(s_real, mv_real);

use glam::DVec3;
use vcore::case::{gen_case, GenLimits};
use vcore::rng::{mix, Rng};
use vcore::surface::OpKind;

static EXACT_CALLS: std::sync::atomic::AtomicU64 = std::sync::atomic::AtomicU64::new(0);

/// Probe at the library's hook sites (real-rayon copy only): how often did the exact predicate decide?
fn probe(site: u32) {
    if site == 10 {
        EXACT_CALLS.fetch_add(1, std::sync::atomic::Ordering::Relaxed);
    }
}

fn main() {
    mv_real::verif::set_sched_point(Some(probe));
    let a: Vec<String> = std::env::args().collect();
    let mode = a.get(1).map(|s| s.as_str()).unwrap_or("");
    let num = |i: usize, d: u64| -> u64 { a.get(i).and_then(|s| s.parse().ok()).unwrap_or(d) };
    let code = match mode {
        "c09" => c09(
            num(2, 1),
            num(3, 0),
            num(4, 3) as usize,
            num(5, 8) as usize,
            a.get(6).map(|s| s.as_str()).unwrap_or("build"),
            a.get(7).map(|s| s.as_str()).unwrap_or(""),
        ),
        "c20" => c20(num(2, 1), num(3, 0), num(4, 4), num(5, 24) as usize),
        _ => {
            eprintln!("usage: miri_drv c09|c20 ...");
            2
        }
    };
    std::process::exit(code);
}

/// `want`: "" or a prefix of the case's `family/mask` name the drawn input has to have (e.g.
/// `centered_lattice/none`: an input on which the exact predicate decides, every cell active).
fn c09(seed: u64, case_index: u64, threads: usize, max_n: usize, ops: &str, want: &str) -> i32 {
    // a case with too few generators has nothing to schedule: draw again
    let mut attempt = 0u64;
    let case = loop {
        let mut rng = Rng::new(mix(seed, case_index, 0xE2 + (attempt << 16)));
        let c = gen_case(
            &mut rng,
            &GenLimits {
                max_n,
                min_n: 0,
                max_n_3d: usize::MAX,
                dim_weights: [1, 2, 6],
            },
        );
        // `want` = [<dim>[p|n]:]<family prefix>, e.g. "2p:lattice/none": 2D, periodic, family lattice, no mask
        let (shape, fam) = match want.split_once(':') {
            Some((a, b)) => (a, b),
            None => ("", want),
        };
        let shape_ok = shape.chars().all(|ch| match ch {
            '1' | '2' | '3' => c.dim == ch.to_digit(10).unwrap() as usize,
            'p' => c.periodic,
            'n' => !c.periodic,
            _ => true,
        });
        if (c.n() >= max_n.min(4) && c.family.starts_with(fam) && shape_ok) || attempt >= 4096 {
            break c;
        }
        attempt += 1;
    };
    rayon::ThreadPoolBuilder::new().num_threads(threads).build_global().expect("global pool");
    let mut code = 0;
    for name in ops.split(',') {
        let op = match OpKind::from_name(name) {
            Some(o) => o,
            None => {
                eprintln!("unknown op {}", name);
                return 2;
            }
        };
        let r = s_seq::run_op(&case, op);
        // twice: repeated calls in one process must agree as well
        for rep in 0..2 {
            let o = s_real::run_op(&case, op);
            match o.first_diff(&r) {
                None => println!(
                    "E2-OK case={} n={} dim={} periodic={} family={} threads={} op={} rep={} exact_predicate_calls={} digest={}",
                    case_index,
                    case.n(),
                    case.dim,
                    case.periodic,
                    case.family,
                    threads,
                    name,
                    rep,
                    EXACT_CALLS.load(std::sync::atomic::Ordering::Relaxed),
                    o.short()
                ),
                Some((comp, x, y)) => {
                    println!(
                        "E2-MISMATCH case={} threads={} op={} rep={} component={} digest_real={} digest_ref={}",
                        case_index, threads, name, rep, comp, x, y
                    );
                    code = 1;
                }
            }
        }
    }
    code
}

fn c20(seed: u64, first: u64, n_sets: u64, max_points: usize) -> i32 {
    // No hash-order hook is registered: the order is whatever the real ahash
    // produces from the keys it drew from (Miri's seeded) getrandom.
    let mut code = 0;
    for k in 0..n_sets {
        let idx = first + k;
        let mut rng = Rng::new(mix(seed, idx, 0xE2C20));
        let n = 2 + rng.below(max_points as u64 - 1) as usize;
        let tight = rng.chance(0.5);
        let c = DVec3::new(rng.f64(), rng.f64(), rng.f64());
        let s = if tight { 1e-7 } else { 1.0 };
        let mut pts: Vec<DVec3> = (0..n).map(|_| c + s * DVec3::new(rng.sym(), rng.sym(), rng.sym())).collect();
        pts.dedup_by(|a, b| a == b);
        let (ce, r) = mv_real::verif::epos6_points(&pts);
        let mut ok = r.is_finite() && ce.is_finite();
        let mut worst = 0.0f64;
        for p in &pts {
            let d = p.distance(ce);
            worst = worst.max(d / r - 1.0);
            if !(d <= r * (1.0 + 1e-9) + 1e-13) {
                ok = false;
            }
        }
        if ok {
            println!("E2-OK set={} n={} tight={} radius_bits={:016x} worst_excess={:e}", idx, pts.len(), tight, r.to_bits(), worst);
        } else {
            println!("E2-MISMATCH set={} n={} tight={} center={:?} radius={} worst_excess={:e}", idx, pts.len(), tight, ce, r, worst);
            code = 1;
        }
    }
    code
}
