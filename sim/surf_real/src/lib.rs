//! See Cargo.toml.
vcore::impl_surface!(s_real, mv_real);
