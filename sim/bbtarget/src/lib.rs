//! Validation workload for the basic-block preemption and the futex emulation of `sim_rayon`
//! (run by `synccheck`). Every function here is an ordinary concurrent program over `std::sync`
//! and the rayon API; this crate is compiled with the same guards as the library under test, so
//! the scheduler can preempt it between any two basic blocks.

use rayon::prelude::*;
use std::sync::atomic::{AtomicBool, AtomicU32, AtomicU64, AtomicUsize, Ordering};
use std::sync::mpsc;
use std::sync::{Arc, Barrier, Condvar, Mutex, OnceLock, RwLock};

#[inline(never)]
fn work(x: u64, rounds: u32) -> u64 {
    // several basic blocks, data dependent
    let mut v = x;
    for i in 0..rounds {
        if v & 1 == 0 {
            v = v / 2 + i as u64;
        } else {
            v = v.wrapping_mul(3).wrapping_add(1);
        }
    }
    v
}

/// A counter behind a `Mutex`, with a critical section of many basic blocks.
/// Correct under every schedule: returns `tasks * iters`.
pub fn mutex_counter(tasks: usize, iters: usize) -> u64 {
    let m = Mutex::new((0u64, 0u64));
    (0..tasks).into_par_iter().for_each(|t| {
        for i in 0..iters {
            let mut g = m.lock().unwrap();
            let before = g.0;
            g.1 = g.1.wrapping_add(work(t as u64 * 31 + i as u64, 12));
            // a lost update would show here
            g.0 = before + 1;
        }
    });
    let g = m.lock().unwrap();
    g.0
}

/// One side waits on a `Condvar` for a flag the other side sets. Needs two workers.
pub fn condvar_handoff(rounds: usize) -> usize {
    let pair = (Mutex::new(0usize), Condvar::new());
    let (a, b) = rayon::join(
        || {
            let mut seen = 0;
            for r in 1..=rounds {
                let mut g = pair.0.lock().unwrap();
                while *g < r {
                    g = pair.1.wait(g).unwrap();
                }
                seen += 1;
            }
            seen
        },
        || {
            for _ in 0..rounds {
                let x = work(17, 9);
                let mut g = pair.0.lock().unwrap();
                *g += 1 + (x & 0) as usize;
                pair.1.notify_all();
            }
            rounds
        },
    );
    a.min(b)
}

/// A blocking channel between the two sides of a `join`. Needs two workers.
pub fn mpsc_pipeline(n: usize) -> u64 {
    let (tx, rx) = mpsc::sync_channel::<u64>(2);
    let (sum, _) = rayon::join(
        move || {
            let mut s = 0u64;
            for _ in 0..n {
                s += rx.recv().unwrap();
            }
            s
        },
        move || {
            for i in 0..n {
                tx.send(work(i as u64, 5) & 0xff).unwrap();
            }
        },
    );
    sum
}

pub fn mpsc_pipeline_expected(n: usize) -> u64 {
    (0..n).map(|i| work(i as u64, 5) & 0xff).sum()
}

/// `OnceLock` initialised under contention by an initialiser of many blocks: everybody sees one value.
pub fn once_lock_init(tasks: usize) -> (u64, usize) {
    let cell: OnceLock<u64> = OnceLock::new();
    let inits = AtomicUsize::new(0);
    let vals: Vec<u64> = (0..tasks)
        .into_par_iter()
        .map(|t| {
            *cell.get_or_init(|| {
                inits.fetch_add(1, Ordering::SeqCst);
                work(1000 + t as u64, 40) | 1
            })
        })
        .collect();
    let first = vals[0];
    assert!(vals.iter().all(|v| *v == first), "OnceLock gave two values");
    (first, inits.load(Ordering::SeqCst))
}

/// Readers and writers on an `RwLock`; the invariant `a + b == 0` must hold for every reader.
pub fn rwlock_invariant(tasks: usize) -> (usize, i64) {
    let l = RwLock::new((0i64, 0i64));
    let broken = AtomicUsize::new(0);
    (0..tasks).into_par_iter().for_each(|t| {
        if t % 3 == 0 {
            let mut g = l.write().unwrap();
            g.0 += 1;
            let _ = work(t as u64, 8);
            g.1 -= 1;
        } else {
            let g = l.read().unwrap();
            let _ = work(t as u64, 4);
            if g.0 + g.1 != 0 {
                broken.fetch_add(1, Ordering::SeqCst);
            }
        }
    });
    let g = l.read().unwrap();
    (broken.load(Ordering::SeqCst), g.0)
}

/// `Barrier` between the two sides of a join (needs two workers).
pub fn barrier_pair() -> (bool, bool) {
    let b = Barrier::new(2);
    let flag = AtomicBool::new(false);
    rayon::join(
        || {
            flag.store(true, Ordering::SeqCst);
            b.wait().is_leader()
        },
        || {
            let l = b.wait().is_leader();
            assert!(flag.load(Ordering::SeqCst), "barrier let a thread through early");
            l
        },
    )
}

/// The classic lock-order inversion: deadlocks under some schedules (needs two workers).
pub fn lock_order_inversion() -> u64 {
    let a = Mutex::new(1u64);
    let b = Mutex::new(2u64);
    let (x, y) = rayon::join(
        || {
            let ga = a.lock().unwrap();
            let w = work(*ga, 20);
            let gb = b.lock().unwrap();
            *ga + *gb + (w & 0)
        },
        || {
            let gb = b.lock().unwrap();
            let w = work(*gb, 20);
            let ga = a.lock().unwrap();
            *ga + *gb + (w & 0)
        },
    );
    x + y
}

/// Slot pool claimed by load-then-store (`cas == false`) or by compare-exchange (`cas == true`).
/// Returns the number of times two tasks were inside the same slot at once: always 0 with the
/// compare-exchange, > 0 under some schedules with load-then-store. The window between the load
/// and the store holds no call, no lock and no hook: only a preemption between two basic blocks
/// can land in it.
pub fn slot_claim(tasks: usize, slots: usize, cas: bool) -> u64 {
    let busy: Vec<AtomicBool> = (0..slots).map(|_| AtomicBool::new(false)).collect();
    let inside: Vec<AtomicU32> = (0..slots).map(|_| AtomicU32::new(0)).collect();
    let clashes = AtomicU64::new(0);
    (0..tasks).into_par_iter().for_each(|t| {
        let home = t % slots;
        let mut s = home;
        let mut spins = 0u32;
        loop {
            let got = if cas {
                busy[s].compare_exchange(false, true, Ordering::AcqRel, Ordering::Acquire).is_ok()
            } else if !busy[s].load(Ordering::Acquire) {
                busy[s].store(true, Ordering::Relaxed);
                true
            } else {
                false
            };
            if got {
                break;
            }
            s = (s + 1) % slots;
            spins += 1;
            if spins % 64 == 0 {
                std::thread::yield_now();
            }
        }
        if inside[s].fetch_add(1, Ordering::SeqCst) != 0 {
            clashes.fetch_add(1, Ordering::SeqCst);
        }
        let _ = work(t as u64, 30);
        inside[s].fetch_sub(1, Ordering::SeqCst);
        busy[s].store(false, Ordering::Release);
    });
    clashes.load(Ordering::SeqCst)
}

/// Sleeps and a `Condvar::wait_timeout` that nobody ever notifies: simulated time, not wall time.
pub fn sleepy(tasks: usize, naps: usize) -> u64 {
    let pair = (Mutex::new(()), Condvar::new());
    let total = AtomicU64::new(0);
    (0..tasks).into_par_iter().for_each(|_| {
        for _ in 0..naps {
            std::thread::sleep(std::time::Duration::from_millis(10));
            total.fetch_add(10, Ordering::SeqCst);
        }
        let g = pair.0.lock().unwrap();
        let (_g, r) = pair.1.wait_timeout(g, std::time::Duration::from_millis(250)).unwrap();
        if r.timed_out() {
            total.fetch_add(250, Ordering::SeqCst);
        }
    });
    total.load(Ordering::SeqCst)
}

/// A guided-scheduling block queue as a maintainer might write it: a block of cells is claimed
/// with a compare-exchange, its output slot is drawn by a separate `fetch_add`. Two workers
/// between the two swap their slots. Workers are spawned in a `scope`, each with a first block in
/// hand, and do a lot of work per block (`cell_work` rounds per cell), so the window is a few
/// instructions in millions. Returns true iff the slots came out in block order.
pub fn block_queue(cells: usize, min_block: usize, cell_work: u32) -> bool {
    struct Q {
        len: usize,
        workers: usize,
        min_block: usize,
        next_cell: AtomicUsize,
        next_slot: AtomicUsize,
    }
    impl Q {
        fn next_block(&self) -> Option<(usize, usize, usize)> {
            let mut offset = self.next_cell.load(Ordering::Relaxed);
            let count = loop {
                if offset >= self.len {
                    return None;
                }
                let remaining = self.len - offset;
                let count = (remaining / (2 * self.workers)).clamp(self.min_block, 1024).min(remaining);
                match self.next_cell.compare_exchange_weak(offset, offset + count, Ordering::Relaxed, Ordering::Relaxed) {
                    Ok(_) => break count,
                    Err(cur) => offset = cur,
                }
            };
            let slot = self.next_slot.fetch_add(1, Ordering::Relaxed);
            Some((offset, count, slot))
        }
    }
    let workers = rayon::current_num_threads();
    let q = Q {
        len: cells,
        workers: workers.max(1),
        min_block,
        next_cell: AtomicUsize::new(0),
        next_slot: AtomicUsize::new(0),
    };
    let out: Mutex<Vec<(usize, u64)>> = Mutex::new(vec![]);
    let construct = |(offset, count, slot): (usize, usize, usize)| {
        let mut acc = 0u64;
        for c in offset..offset + count {
            acc = acc.wrapping_add(work(c as u64, cell_work));
        }
        let mut g = out.lock().unwrap();
        if g.len() <= slot {
            g.resize(slot + 1, (usize::MAX, 0));
        }
        g[slot] = (offset, acc);
    };
    let worker = |first: (usize, usize, usize)| {
        construct(first);
        while let Some(b) = q.next_block() {
            construct(b);
        }
    };
    rayon::scope(|s| {
        let worker = &worker;
        for _ in 0..workers {
            let Some(b) = q.next_block() else { break };
            s.spawn(move |_| worker(b));
        }
    });
    let g = out.into_inner().unwrap();
    g.windows(2).all(|w| w[0].0 < w[1].0)
}

/// The caller thread itself blocks: detached jobs (`rayon::spawn`) send through a bounded channel,
/// the caller receives. The senders block when the channel is full, the caller when it is empty.
pub fn spawn_and_recv(jobs: usize, per_job: usize) -> u64 {
    let (tx, rx) = mpsc::sync_channel::<u64>(1);
    for j in 0..jobs {
        let tx = tx.clone();
        rayon::spawn(move || {
            for i in 0..per_job {
                tx.send(work((j * per_job + i) as u64, 6) & 0xff).unwrap();
            }
        });
    }
    drop(tx);
    let mut s = 0u64;
    while let Ok(v) = rx.recv() {
        s += v;
    }
    s
}

pub fn spawn_and_recv_expected(jobs: usize, per_job: usize) -> u64 {
    (0..jobs * per_job).map(|k| work(k as u64, 6) & 0xff).sum()
}

/// A thread the simulator does not know (a plain `std::thread`) produces, simulated workers
/// consume through a bounded channel, and the caller joins the producer at the end of the scope.
/// Wake-ups cross the border of the simulation in both directions.
pub fn external_producer(items: usize, consumers: usize) -> u64 {
    let (tx, rx) = mpsc::sync_channel::<u64>(2);
    let rx = Mutex::new(rx);
    let total = AtomicU64::new(0);
    std::thread::scope(|threads| {
        threads.spawn(move || {
            for i in 0..items {
                tx.send(work(i as u64, 7) & 0xff).unwrap();
            }
        });
        rayon::scope(|s| {
            for _ in 0..consumers {
                s.spawn(|_| loop {
                    let v = {
                        let g = rx.lock().unwrap();
                        g.recv()
                    };
                    match v {
                        Ok(v) => {
                            total.fetch_add(v, Ordering::SeqCst);
                        }
                        Err(_) => break,
                    }
                });
            }
        });
    });
    total.load(Ordering::SeqCst)
}

pub fn external_producer_expected(items: usize) -> u64 {
    (0..items).map(|i| work(i as u64, 7) & 0xff).sum()
}

/// Plain `std::thread::spawn` + `JoinHandle::join` from inside a parallel loop, with a lock shared
/// between the spawned threads and the pool's workers.
pub fn spawn_join_inside(tasks: usize) -> u64 {
    let shared = Arc::new(Mutex::new(0u64));
    (0..tasks).into_par_iter().for_each(|t| {
        let s2 = shared.clone();
        let h = std::thread::spawn(move || {
            let w = work(t as u64, 10) & 0xf;
            let mut g = s2.lock().unwrap();
            *g += w;
            w
        });
        {
            let mut g = shared.lock().unwrap();
            *g += 1;
        }
        let w = h.join().unwrap();
        let mut g = shared.lock().unwrap();
        *g += w;
    });
    let g = shared.lock().unwrap();
    *g
}

pub fn spawn_join_inside_expected(tasks: usize) -> u64 {
    (0..tasks).map(|t| 1 + 2 * (work(t as u64, 10) & 0xf)).sum()
}

/// Blocks of cells taken with one `fetch_add`, the output range with a second one, workers are
/// the items of a parallel iterator over `0..current_num_threads()`. Returns true iff the results
/// came out in cell order.
pub fn two_counters(n_cells: usize, block: usize, cell_work: u32) -> bool {
    let next_cell = AtomicUsize::new(0);
    let next_slot = AtomicUsize::new(0);
    let worker = |_: usize| {
        let mut blocks = vec![];
        loop {
            let start = next_cell.fetch_add(block, Ordering::Relaxed);
            if start >= n_cells {
                break;
            }
            let end = (start + block).min(n_cells);
            let n_active = (start..end).filter(|c| c % 7 != 3).count();
            if n_active == 0 {
                continue;
            }
            let first_slot = next_slot.fetch_add(n_active, Ordering::Relaxed);
            let results: Vec<(usize, u64)> = (start..end).filter(|c| c % 7 != 3).map(|c| (c, work(c as u64, cell_work))).collect();
            blocks.push((first_slot, results));
        }
        blocks
    };
    let per_worker: Vec<Vec<(usize, Vec<(usize, u64)>)>> = (0..rayon::current_num_threads()).into_par_iter().map(worker).collect();
    let mut ordered: Vec<Option<(usize, u64)>> = vec![None; next_slot.into_inner()];
    for (first_slot, results) in per_worker.into_iter().flatten() {
        for (slot, r) in ordered[first_slot..].iter_mut().zip(results) {
            *slot = Some(r);
        }
    }
    let flat: Vec<(usize, u64)> = ordered.into_iter().flatten().collect();
    flat.windows(2).all(|w| w[0].0 < w[1].0)
}
