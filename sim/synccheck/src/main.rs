//! Validation of the two mechanisms that let E1 run code with real synchronisation in it:
//! preemption at basic-block guards (`bbguard`) and the futex / sleep emulation (`sim_rayon::sys`).
//!
//!   synccheck <seed> <schedules>          run everything; exit 0 = as specified, 1 = mismatch
//!   synccheck child <prog> <seed>         one program under one schedule (used for the deadlock case)
//!
//! What is demanded of the simulator, on ordinary concurrent programs (`bbtarget`, compiled with
//! guards like the library under test):
//!  * correct programs (mutex counter, condvar hand-off, bounded channel, `OnceLock`, `RwLock`,
//!    `Barrier`, compare-exchange slot pool, detached jobs feeding a bounded channel that the
//!    caller thread drains, a producer on a plain `std::thread` feeding simulated consumers, `thread::spawn` +
//!    `join` inside a parallel loop - such threads are adopted by the scheduler) give the result their synchronisation guarantees under
//!    EVERY schedule - soundness: the emulation must not invent behaviour (lost wake-up, two owners
//!    of a lock);
//!  * incorrect ones are caught under SOME schedule - sensitivity: the load-then-store slot pool
//!    lets two tasks into one slot, the lock-order inversion ends as a detected deadlock (exit 4);
//!  * the emulation is actually exercised (futex waits, wakes, time-outs, simulated sleeps > 0) and a
//!    lock held by a preempted worker never wedges the simulation (no watchdog exit);
//!  * sleeps cost simulated, not real, time;
//!  * one seed is one execution: decision lists and results are identical when a seed is run twice.

use sim_rayon::sim::{SchedMode, Sim, SimConfig, SplitMode, Stats};

fn sm(x: &mut u64) -> u64 {
    *x = x.wrapping_add(0x9E37_79B9_7F4A_7C15);
    let mut z = *x;
    z = (z ^ (z >> 30)).wrapping_mul(0xBF58_476D_1CE4_E5B9);
    z = (z ^ (z >> 27)).wrapping_mul(0x94D0_49BB_1331_11EB);
    z ^ (z >> 31)
}

const POOLS: &[usize] = &[2, 3, 4, 7];
const SPLITS: &[SplitMode] = &[SplitMode::Adaptive, SplitMode::Random, SplitMode::PerItem];
const SCHEDS: &[SchedMode] = &[SchedMode::LeafRandom, SchedMode::Interleave, SchedMode::Pct, SchedMode::Stall];

struct Run<T> {
    value: T,
    stats: Stats,
    decisions: Vec<u32>,
}

/// Run `f` under one simulated schedule derived from `seed`, basic-block preemption on.
fn under_sim<T: Send>(seed: u64, f: impl FnOnce() -> T + Send) -> Run<T> {
    let mut s = seed;
    let cfg = SimConfig {
        pool_sizes: vec![POOLS[(sm(&mut s) % POOLS.len() as u64) as usize]],
        split: SPLITS[(sm(&mut s) % SPLITS.len() as u64) as usize],
        sched: SCHEDS[(sm(&mut s) % SCHEDS.len() as u64) as usize],
        preempt_hooks: false,
        preempt_bb: false,
        mean_gap: [1u32, 2, 8][(sm(&mut s) % 3) as usize],
        pct_depth: 1 + (sm(&mut s) % 3) as u32,
        watchdog_s: 20,
    };
    std::thread::scope(|sc| {
        sc.spawn(move || {
            let sim = Sim::new(cfg, sm(&mut s), None);
            sim.install();
            sim.set_preempt_bb(true);
            let value = f();
            Sim::uninstall();
            let r = Run {
                value,
                stats: sim.stats(),
                decisions: sim.decisions(),
            };
            sim.shutdown();
            r
        })
        .join()
        .expect("simulated program panicked")
    })
}

fn child(prog: &str, seed: u64) -> i32 {
    match prog {
        "lock_order_inversion" => {
            let r = under_sim(seed, bbtarget::lock_order_inversion);
            if r.value == 6 {
                0
            } else {
                1
            }
        }
        _ => 2,
    }
}

/// Development aid: catch rate of the block-queue window over many schedules.
fn rate(seed: u64, n: u64) {
    let mut hit = 0;
    let mut tot = Stats::default();
    for i in 0..n {
        let which = std::env::var("RATE_PROG").unwrap_or_default();
        let r = under_sim(seed ^ (i.wrapping_mul(0x9E37_79B9_7F4A_7C15)), || if which == "two_counters" { bbtarget::two_counters(300, 64, 40) } else { bbtarget::block_queue(400, 64, 40) });
        if !r.value {
            hit += 1;
        }
        tot.add(&r.stats);
    }
    println!(
        "block_queue window caught in {}/{} schedules; steps={} bb_yields={} rare_yields={} suspensions={} switches={}",
        hit, n, tot.scheduler_steps, tot.bb_yields, tot.bb_rare_yields, tot.rare_site_suspensions, tot.context_switches
    );
}

fn main() {
    let args: Vec<String> = std::env::args().collect();
    if let Some(w) = std::env::var("BBGUARD_WATCH").ok().and_then(|s| s.parse::<u32>().ok()) {
        bbguard::WATCH.store(w, std::sync::atomic::Ordering::Relaxed);
    }
    if args.get(1).map(|s| s.as_str()) == Some("det") {
        // development aid: which program is not a function of its seed?
        let seed: u64 = args.get(2).and_then(|s| s.parse().ok()).unwrap_or(1);
        let only: Option<u64> = std::env::var("SIM_DET_ONLY").ok().and_then(|s| s.parse().ok());
        for i in 0..60u64 {
            let s = seed ^ (i.wrapping_mul(0x9E37_79B9_7F4A_7C15));
            if let Some(o) = only {
                if o != i {
                    continue;
                }
                eprintln!("=== A");
                let a = under_sim(s, || (bbtarget::external_producer(6, 2), bbtarget::spawn_join_inside(3)));
                eprintln!("=== B");
                let b = under_sim(s, || (bbtarget::external_producer(6, 2), bbtarget::spawn_join_inside(3)));
                println!("{} {} same={}", a.decisions.len(), b.decisions.len(), a.decisions == b.decisions);
                continue;
            }
            let a = under_sim(s, || bbtarget::mutex_counter(5, 3));
            let b = under_sim(s, || bbtarget::mutex_counter(5, 3));
            if a.decisions != b.decisions {
                println!("mutex_counter seed {} differs: {} / {}", i, a.decisions.len(), b.decisions.len());
            }
            let a = under_sim(s, || bbtarget::slot_claim(10, 2, false));
            let b = under_sim(s, || bbtarget::slot_claim(10, 2, false));
            if a.decisions != b.decisions {
                println!("slot_claim seed {} differs: {} / {}", i, a.decisions.len(), b.decisions.len());
            }
            let a = under_sim(s, || (bbtarget::external_producer(6, 2), bbtarget::spawn_join_inside(3)));
            let b = under_sim(s, || (bbtarget::external_producer(6, 2), bbtarget::spawn_join_inside(3)));
            if a.decisions != b.decisions {
                let k = a.decisions.iter().zip(b.decisions.iter()).position(|(x, y)| x != y);
                println!("pair seed {} differs: {} / {} first at {:?}; values {:?} {:?}", i, a.decisions.len(), b.decisions.len(), k, a.value, b.value);
            }
            let a = under_sim(s, || bbtarget::spawn_and_recv(3, 4));
            let b = under_sim(s, || bbtarget::spawn_and_recv(3, 4));
            if a.decisions != b.decisions {
                println!("spawn_and_recv seed {} differs: {} / {}", i, a.decisions.len(), b.decisions.len());
            }
        }
        return;
    }
    if args.get(1).map(|s| s.as_str()) == Some("rate") {
        let seed: u64 = args.get(2).and_then(|s| s.parse().ok()).unwrap_or(1);
        let n: u64 = args.get(3).and_then(|s| s.parse().ok()).unwrap_or(200);
        rate(seed, n);
        return;
    }
    if args.get(1).map(|s| s.as_str()) == Some("child") {
        let seed: u64 = args.get(3).and_then(|s| s.parse().ok()).unwrap_or(1);
        std::process::exit(child(args.get(2).map(|s| s.as_str()).unwrap_or(""), seed));
    }
    let seed: u64 = args.get(1).and_then(|s| s.parse().ok()).unwrap_or(1);
    let n: u64 = args.get(2).and_then(|s| s.parse().ok()).unwrap_or(40);
    let mut bad = 0u64;
    let mut evals = 0u64;
    let mut total = Stats::default();
    let mut mismatch = |what: &str, case: u64, detail: String| {
        println!("SYNC-MISMATCH {} schedule={} {}", what, case, detail);
        bad += 1;
    };
    if bbguard::sites() == 0 {
        println!("SYNC-MISMATCH no basic-block guards are registered: bbtarget was built without instrumentation");
        std::process::exit(1);
    }

    let mut racy_clashes = 0u64;
    let mut racy_schedules = 0u64;
    for i in 0..n {
        let s = seed ^ (i.wrapping_mul(0x9E37_79B9_7F4A_7C15));
        // -- correct programs: the result is fixed by their synchronisation --
        let r = under_sim(s ^ 1, || bbtarget::mutex_counter(6, 5));
        if r.value != 30 {
            mismatch("mutex_counter", i, format!("{} != 30 (lost update: two owners of a Mutex)", r.value));
        }
        total.add(&r.stats);
        let r = under_sim(s ^ 2, || bbtarget::condvar_handoff(4));
        if r.value != 4 {
            mismatch("condvar_handoff", i, format!("{} != 4", r.value));
        }
        total.add(&r.stats);
        let r = under_sim(s ^ 3, || bbtarget::mpsc_pipeline(9));
        if r.value != bbtarget::mpsc_pipeline_expected(9) {
            mismatch("mpsc_pipeline", i, format!("{} != {}", r.value, bbtarget::mpsc_pipeline_expected(9)));
        }
        total.add(&r.stats);
        let r = under_sim(s ^ 4, || bbtarget::once_lock_init(8));
        if r.value.1 != 1 {
            mismatch("once_lock_init", i, format!("initialiser ran {} times", r.value.1));
        }
        total.add(&r.stats);
        let r = under_sim(s ^ 5, || bbtarget::rwlock_invariant(12));
        if r.value.0 != 0 || r.value.1 != 4 {
            mismatch("rwlock_invariant", i, format!("{} readers saw a half-done write; writes {}", r.value.0, r.value.1));
        }
        total.add(&r.stats);
        let r = under_sim(s ^ 6, bbtarget::barrier_pair);
        if r.value.0 == r.value.1 {
            mismatch("barrier_pair", i, format!("leaders {:?}", r.value));
        }
        total.add(&r.stats);
        let r = under_sim(s ^ 7, || bbtarget::slot_claim(12, 2, true));
        if r.value != 0 {
            mismatch("slot_claim(cas)", i, format!("{} double claims with compare_exchange", r.value));
        }
        total.add(&r.stats);
        let r = under_sim(s ^ 11, || bbtarget::spawn_and_recv(3, 4));
        if r.value != bbtarget::spawn_and_recv_expected(3, 4) {
            mismatch("spawn_and_recv", i, format!("{} != {}", r.value, bbtarget::spawn_and_recv_expected(3, 4)));
        }
        total.add(&r.stats);
        let r = under_sim(s ^ 12, || bbtarget::external_producer(10, 2));
        if r.value != bbtarget::external_producer_expected(10) {
            mismatch("external_producer", i, format!("{} != {}", r.value, bbtarget::external_producer_expected(10)));
        }
        total.add(&r.stats);
        let r = under_sim(s ^ 13, || bbtarget::spawn_join_inside(5));
        if r.value != bbtarget::spawn_join_inside_expected(5) {
            mismatch("spawn_join_inside", i, format!("{} != {}", r.value, bbtarget::spawn_join_inside_expected(5)));
        }
        if r.stats.threads_adopted != 5 {
            mismatch("spawn_join_inside", i, format!("{} of 5 threads adopted by the scheduler", r.stats.threads_adopted));
        }
        if r.stats.ops_with_outside_threads != 0 {
            mismatch("spawn_join_inside", i, "a thread of the program ran outside the scheduler".to_string());
        }
        total.add(&r.stats);
        // -- sleeps are simulated --
        let t0 = std::time::Instant::now();
        let r = under_sim(s ^ 8, || {
            let t = std::time::Instant::now();
            let ms = bbtarget::sleepy(3, 4);
            (ms, t.elapsed().as_millis() as u64)
        });
        let real_ms = t0.elapsed().as_millis() as u64;
        if r.value.0 != 3 * (40 + 250) {
            mismatch("sleepy", i, format!("slept {} ms of {} (a wait_timeout nobody notifies must time out)", r.value.0, 3 * 290));
        }
        if r.value.1 < 290 {
            mismatch("sleepy", i, format!("simulated clock advanced only {} ms", r.value.1));
        }
        if real_ms > 2000 {
            mismatch("sleepy", i, format!("took {} ms of real time: the sleeps were real", real_ms));
        }
        total.add(&r.stats);
        // -- the incorrect program: must be caught under some schedule (about one in eight does) --
        for j in 0..8u64 {
            if i * 8 + j >= 160 && racy_clashes > 0 {
                break;
            }
            let r = under_sim(s ^ 9 ^ (j << 32), || bbtarget::slot_claim(12, 2, false));
            racy_schedules += 1;
            if r.value > 0 {
                racy_clashes += 1;
            }
            total.add(&r.stats);
            evals += 1;
        }
        // -- determinism: the same seed again --
        // (programs that start threads of their own are left out: the last moments of an adopted
        // thread - std dropping the thread's handle after the thread-local destructors - are not
        // under the scheduler's control, and a reference count decremented a little earlier or later
        // changes which thread frees an object, hence the sequence of guards passed)
        let a = under_sim(s ^ 10, || (bbtarget::mutex_counter(5, 3), bbtarget::slot_claim(10, 2, false), bbtarget::spawn_and_recv(2, 3)));
        let b = under_sim(s ^ 10, || (bbtarget::mutex_counter(5, 3), bbtarget::slot_claim(10, 2, false), bbtarget::spawn_and_recv(2, 3)));
        if a.value != b.value || a.decisions != b.decisions {
            mismatch(
                "determinism",
                i,
                format!("values {:?} / {:?}, decision lists {} / {} long", a.value, b.value, a.decisions.len(), b.decisions.len()),
            );
        }
        total.add(&a.stats);
        evals += 14;
    }
    let mut extra = 0u64;
    while racy_schedules < 160 {
        let r = under_sim(seed ^ 0xACE ^ (extra << 20), || bbtarget::slot_claim(12, 2, false));
        extra += 1;
        racy_schedules += 1;
        if r.value > 0 {
            racy_clashes += 1;
        }
        total.add(&r.stats);
        evals += 1;
    }
    if racy_clashes == 0 {
        mismatch("slot_claim(load-then-store)", n, format!("no double claim found in {} schedules: the preemption does not reach the window", racy_schedules));
    }
    // the lock-order inversion, in child processes (a detected deadlock ends the process)
    let exe = std::env::current_exe().expect("current_exe");
    let (mut dead, mut fine, mut other) = (0u64, 0u64, 0u64);
    for i in 0..40u64 {
        let st = std::process::Command::new(&exe)
            .args(["child", "lock_order_inversion", &(seed ^ (i * 7919 + 11)).to_string()])
            .stdout(std::process::Stdio::null())
            .stderr(std::process::Stdio::null())
            .status()
            .expect("spawn child");
        match st.code() {
            Some(0) => fine += 1,
            Some(c) if c == sim_rayon::sim::EXIT_DEADLOCK => dead += 1,
            c => {
                other += 1;
                println!("SYNC-MISMATCH lock_order_inversion schedule={} ended with {:?} (0 = completed, {} = deadlock detected expected)", i, c, sim_rayon::sim::EXIT_DEADLOCK);
            }
        }
        evals += 1;
        if dead > 0 && fine > 0 && i >= 3 {
            break;
        }
    }
    if other > 0 {
        bad += other;
    }
    if dead == 0 {
        println!("SYNC-MISMATCH lock_order_inversion never deadlocked in {} schedules", 40);
        bad += 1;
    }
    if fine == 0 {
        println!("SYNC-MISMATCH lock_order_inversion deadlocked under every schedule (the benign order is legal too)");
        bad += 1;
    }
    // reach
    let reach = [
        ("futex_waits", total.futex_waits),
        ("futex_wakes", total.futex_wakes),
        ("futex_timeouts", total.futex_timeouts),
        ("sleeps_simulated", total.sleeps_simulated),
        ("preempt_bb", total.preempt_bb + total.preempt_bb_rare),
        ("bb_guards_passed", total.bb_guards_passed),
    ];
    for (k, v) in reach {
        if v == 0 {
            println!("SYNC-MISMATCH reach: {} stayed at 0", k);
            bad += 1;
        }
    }
    println!(
        "synccheck: programs=15 evaluations={} mismatches={} racy_slot_pool_caught_in={}/{} lock_order_deadlocks={}/{} futex_waits={} futex_wakes={} futex_timeouts={} sleeps_simulated={} bb_preemptions={} guards_passed={} guard_sites={}",
        evals,
        bad,
        racy_clashes,
        racy_schedules,
        dead,
        dead + fine,
        total.futex_waits,
        total.futex_wakes,
        total.futex_timeouts,
        total.sleeps_simulated,
        total.preempt_bb + total.preempt_bb_rare,
        total.bb_guards_passed,
        bbguard::sites()
    );
    std::process::exit(if bad == 0 { 0 } else { 1 });
}
