//! C20: auxiliary structures (uniform-grid k-NN, bounding spheres).
//!
//! Simulated clause (S2): `Epos6::bounding_sphere` feeds the members of an
//! `ahash::HashSet` to `Welzl` in iteration order, which differs from process
//! to process. The hash-order seam lets the harness own that order; for every
//! generated point set *all* m! orders of the m <= 6 extremal indices are run.
//!
//! The other clauses (k-NN exactness, Welzl containment/minimality, sphere of
//! spheres) have no order or schedule in them. They are evaluated on the same
//! seeded workload against brute force and reported separately as
//! "exercised, not simulated".

use crate::Args;
use glam::DVec3;
use mv_seq::verif as lib;
use std::cell::RefCell;
use std::collections::{BTreeMap, BTreeSet};
use std::time::Instant;
use vcore::json::J;
use vcore::rng::{mix, Rng};

thread_local! {
    /// Permutation (Lehmer index) applied by the seam, and the size of the set it saw.
    static ORDER: RefCell<(u64, usize, Vec<usize>)> = const { RefCell::new((0, 0, Vec::new())) };
}

fn seam(order: &mut Vec<usize>) {
    ORDER.with(|o| {
        let mut o = o.borrow_mut();
        let m = order.len();
        o.1 = m;
        // decode Lehmer index into a permutation of the sorted members
        let mut idx = o.0;
        let mut pool: Vec<usize> = order.clone();
        let mut out = Vec::with_capacity(m);
        let mut f: u64 = (1..=m as u64).product();
        for i in 0..m {
            f /= (m - i) as u64;
            let k = (idx / f.max(1)) as usize % pool.len();
            idx %= f.max(1);
            out.push(pool.remove(k));
        }
        o.2 = out.clone();
        *order = out;
    });
}

thread_local! {
    /// (steps taken, budget) of the library call in progress; budget 0 = unlimited.
    static STEPS: std::cell::Cell<(u64, u64)> = const { std::cell::Cell::new((0, 0)) };
}

const BUDGET_MSG: &str = "verif: step budget exceeded";

/// Target of the library's `sched_point` hook while C20 runs: logical-step
/// accounting for the ring search of `Space::knn` (site 5). Bounded liveness is
/// decided in simulated steps, not in seconds: when the budget of the call in
/// progress is used up the call is abandoned by unwinding out of the library.
fn step_hook(site: u32) {
    if site != 5 {
        return;
    }
    let (n, b) = STEPS.with(|s| s.get());
    STEPS.with(|s| s.set((n + 1, b)));
    if b != 0 && n + 1 > b {
        panic!("{}", BUDGET_MSG);
    }
}

fn with_budget<T>(budget: u64, f: impl FnOnce() -> T + std::panic::UnwindSafe) -> Result<(T, u64), String> {
    STEPS.with(|s| s.set((0, budget)));
    let r = std::panic::catch_unwind(f);
    let (n, _) = STEPS.with(|s| s.get());
    STEPS.with(|s| s.set((0, 0)));
    match r {
        Ok(v) => Ok((v, n)),
        Err(p) => {
            let msg = p.downcast_ref::<String>().cloned().or_else(|| p.downcast_ref::<&str>().map(|s| s.to_string())).unwrap_or_default();
            if msg == BUDGET_MSG {
                Err(format!("no result within {} ring-search steps (bounded liveness)", budget))
            } else {
                Err("panicked".into())
            }
        }
    }
}

fn factorial(m: usize) -> u64 {
    (1..=m as u64).product::<u64>().max(1)
}

fn set_order(p: u64) {
    ORDER.with(|o| o.borrow_mut().0 = p);
}
fn seen() -> (usize, Vec<usize>) {
    ORDER.with(|o| {
        let o = o.borrow();
        (o.1, o.2.clone())
    })
}

// ---------------------------------------------------------------------------
// Workloads
// ---------------------------------------------------------------------------

pub const POINT_FAMILIES: &[&str] = &[
    "uniform_aniso",
    "planar",
    "lattice",
    "cospherical",
    "tight_cluster",
    "repeated_extremes",
    "few",
    "collinear_axis",
];

fn gen_points(rng: &mut Rng, max_n: usize) -> (String, Vec<DVec3>) {
    let fam = *rng.pick(POINT_FAMILIES);
    let n = match rng.below(4) {
        0 => 2 + rng.below(5) as usize,
        1 => 2 + rng.below(20) as usize,
        _ => 2 + rng.below(max_n as u64 - 1) as usize,
    };
    let mut pts: Vec<DVec3> = vec![];
    match fam {
        "uniform_aniso" => {
            let s = DVec3::new(10f64.powf(rng.sym() * 4.0), 10f64.powf(rng.sym() * 4.0), 10f64.powf(rng.sym() * 4.0));
            let o = DVec3::new(rng.sym() * 100.0, rng.sym() * 100.0, rng.sym() * 100.0);
            for _ in 0..n {
                pts.push(o + s * DVec3::new(rng.f64(), rng.f64(), rng.f64()));
            }
        }
        "planar" => {
            let z = if rng.chance(0.5) { 0.0 } else { rng.sym() * 10.0 };
            for _ in 0..n {
                pts.push(DVec3::new(rng.f64(), rng.f64(), z));
            }
        }
        "lattice" => {
            let m = ((n as f64).cbrt().ceil() as usize).max(2);
            for i in 0..m {
                for j in 0..m {
                    for k in 0..m {
                        if pts.len() < n {
                            // generic skew so that no three lattice points are collinear along an axis pair
                            pts.push(DVec3::new(
                                i as f64 + 0.01 * (j * j) as f64,
                                j as f64 + 0.013 * (k * k) as f64,
                                k as f64 + 0.017 * (i * i) as f64,
                            ));
                        }
                    }
                }
            }
        }
        "cospherical" => {
            let c = DVec3::new(rng.sym(), rng.sym(), rng.sym());
            let r = 0.1 + rng.f64();
            let eps = if rng.chance(0.5) { 0.0 } else { 1e-12 };
            for _ in 0..n {
                let mut d;
                loop {
                    d = DVec3::new(rng.sym(), rng.sym(), rng.sym());
                    if d.length() > 1e-3 {
                        break;
                    }
                }
                pts.push(c + d.normalize() * r * (1.0 + eps * rng.sym()));
            }
        }
        "tight_cluster" => {
            let c = DVec3::new(rng.f64(), rng.f64(), rng.f64());
            let s = 10f64.powf(-9.0 + 3.0 * rng.f64());
            for _ in 0..n {
                pts.push(c + s * DVec3::new(rng.sym(), rng.sym(), rng.sym()));
            }
            if rng.chance(0.5) {
                pts.push(DVec3::new(rng.f64(), rng.f64(), rng.f64()));
            }
        }
        "repeated_extremes" => {
            // several points share the extreme coordinate: the strict `<` keeps
            // the first, and the extremal set has fewer than 6 members
            for _ in 0..n {
                let q = |rng: &mut Rng| (rng.below(4) as f64) / 3.0;
                pts.push(DVec3::new(q(rng), q(rng), q(rng)) + 1e-3 * DVec3::new(rng.f64(), 0.0, 0.0));
            }
        }
        "few" => {
            for _ in 0..(2 + rng.below(4)) {
                pts.push(DVec3::new(rng.sym(), rng.sym(), rng.sym()));
            }
        }
        _ => {
            // nearly collinear along one axis with small transverse noise
            let ax = rng.below(3) as usize;
            let noise = 10f64.powf(-1.0 - 6.0 * rng.f64());
            for _ in 0..n {
                let mut p = DVec3::new(rng.sym(), rng.sym(), rng.sym()) * noise;
                p[ax] = rng.sym() * 10.0;
                pts.push(p);
            }
        }
    }
    // distinct points only
    let mut seen = BTreeSet::new();
    pts.retain(|p| seen.insert([p.x.to_bits(), p.y.to_bits(), p.z.to_bits()]));
    if pts.len() < 2 {
        pts.push(DVec3::new(1.0, 2.0, 3.0));
        pts.push(DVec3::new(-1.0, 0.5, 0.25));
    }
    (fam.to_string(), pts)
}

fn pts_json(pts: &[DVec3]) -> J {
    J::obj()
        .set(
            "bits",
            J::arr(pts.iter().map(|p| J::arr([p.x, p.y, p.z].iter().map(|x| J::s(&format!("{:016x}", x.to_bits())))))),
        )
        .set("values", J::arr(pts.iter().map(|p| J::arr([p.x, p.y, p.z].iter().map(|x| J::Num(*x))))))
}

fn pts_from(j: &J) -> Result<Vec<DVec3>, String> {
    j.get("bits")
        .and_then(|b| b.as_arr())
        .ok_or("bits missing")?
        .iter()
        .map(|p| {
            let a = p.as_arr().ok_or("bad point")?;
            let f = |i: usize| -> Result<f64, String> {
                Ok(f64::from_bits(
                    u64::from_str_radix(a[i].as_str().ok_or("bad hex")?, 16).map_err(|e| e.to_string())?,
                ))
            };
            Ok(DVec3::new(f(0)?, f(1)?, f(2)?))
        })
        .collect()
}

// ---------------------------------------------------------------------------
// Oracles
// ---------------------------------------------------------------------------

/// Tolerance on the radius (relative): the library's own `contains` uses
/// 1 + 1e-10 on r^2; the `extend` pass adds a few roundings per point.
const CONTAIN_TOL: f64 = 1e-9;

fn contains_all(c: DVec3, r: f64, pts: &[DVec3]) -> Result<(), String> {
    if !(r.is_finite() && c.is_finite()) {
        return Err(format!("sphere not finite: center={:?} radius={}", c, r));
    }
    let scale = pts.iter().fold(0.0f64, |m, p| m.max(p.abs().max_element())).max(r);
    for (i, p) in pts.iter().enumerate() {
        let d = p.distance(c);
        if d > r * (1.0 + CONTAIN_TOL) + scale * 1e-13 {
            return Err(format!("point {} at distance {:e} outside radius {:e} (excess {:e})", i, d, r, d / r - 1.0));
        }
    }
    Ok(())
}

/// Epos6 on points under hash order `perm`. Returns Err(description) on violation.
fn epos6_under(pts: &[DVec3], perm: u64) -> (usize, Result<(), String>) {
    set_order(perm);
    let r = std::panic::catch_unwind(|| lib::epos6_points(pts));
    let (m, _) = seen();
    match r {
        Err(_) => (m, Err("panicked".into())),
        Ok((c, rad)) => (m, contains_all(c, rad, pts)),
    }
}

fn circumsphere(b: &[DVec3]) -> Option<(DVec3, f64)> {
    // smallest sphere through 2, 3 or 4 points (own implementation)
    match b.len() {
        2 => Some(((b[0] + b[1]) * 0.5, b[0].distance(b[1]) * 0.5)),
        3 => {
            let a = b[1] - b[0];
            let c = b[2] - b[0];
            let n = a.cross(c);
            let d = 2.0 * n.length_squared();
            if d.abs() < 1e-300 {
                return None;
            }
            let o = (n.cross(a) * c.length_squared() + c.cross(n) * a.length_squared()) / d;
            Some((b[0] + o, o.length()))
        }
        4 => {
            let a = b[1] - b[0];
            let c = b[2] - b[0];
            let e = b[3] - b[0];
            let det = a.dot(c.cross(e));
            if det.abs() < 1e-300 {
                return None;
            }
            let o = (c.cross(e) * a.length_squared() + e.cross(a) * c.length_squared() + a.cross(c) * e.length_squared())
                / (2.0 * det);
            Some((b[0] + o, o.length()))
        }
        _ => None,
    }
}

/// Brute-force minimal enclosing sphere radius (n small).
fn brute_min_radius(pts: &[DVec3]) -> Option<f64> {
    let n = pts.len();
    let mut best: Option<f64> = None;
    let mut consider = |s: Option<(DVec3, f64)>| {
        if let Some((c, r)) = s {
            if r.is_finite() && pts.iter().all(|p| p.distance(c) <= r * (1.0 + 1e-9)) && best.map_or(true, |b| r < b) {
                best = Some(r);
            }
        }
    };
    for i in 0..n {
        for j in i + 1..n {
            consider(circumsphere(&[pts[i], pts[j]]));
            for k in j + 1..n {
                consider(circumsphere(&[pts[i], pts[j], pts[k]]));
                for l in k + 1..n {
                    consider(circumsphere(&[pts[i], pts[j], pts[k], pts[l]]));
                }
            }
        }
    }
    best
}

fn check_welzl(pts: &[DVec3], minimal: bool) -> Result<(), String> {
    let r = std::panic::catch_unwind(|| lib::welzl(pts));
    let (c, rad) = match r {
        Ok(x) => x,
        Err(_) => return Err("welzl panicked".into()),
    };
    contains_all(c, rad, pts).map_err(|e| format!("welzl: {}", e))?;
    if minimal && pts.len() <= 9 {
        if let Some(b) = brute_min_radius(pts) {
            if rad > b * (1.0 + 1e-6) {
                return Err(format!("welzl: radius {:e} exceeds minimal {:e}", rad, b));
            }
        }
    }
    Ok(())
}

fn check_spheres(sph: &[(DVec3, f64)]) -> Result<(), String> {
    let r = std::panic::catch_unwind(|| lib::epos6_spheres(sph));
    let (c, rad) = match r {
        Ok(x) => x,
        Err(_) => return Err("epos6_spheres panicked".into()),
    };
    if !(rad.is_finite() && c.is_finite()) {
        return Err(format!("sphere of spheres not finite: center={:?} radius={}", c, rad));
    }
    // same tolerance as for points: relative on the radius, plus the rounding of the
    // coordinates themselves (a few ulps of the largest coordinate)
    let scale = sph.iter().fold(1.0f64, |m, (sc, sr)| m.max(sc.abs().max_element()).max(*sr));
    for (i, (sc, sr)) in sph.iter().enumerate() {
        let d = sc.distance(c) + sr;
        if d > rad * (1.0 + CONTAIN_TOL) + scale * 1e-13 {
            return Err(format!("sphere {} reaches {:e} > radius {:e}", i, d, rad));
        }
    }
    Ok(())
}

thread_local! {
    static KNN_STEPS: std::cell::Cell<u64> = const { std::cell::Cell::new(0) };
}

struct KnnCase {
    anchor: DVec3,
    width: DVec3,
    max_cell_width: f64,
    pts: Vec<DVec3>,
    k: usize,
}

fn gen_knn(rng: &mut Rng, cubic_only: bool, max_n: usize) -> KnnCase {
    let anchor = if rng.chance(0.5) {
        DVec3::ZERO
    } else {
        DVec3::new(rng.sym() * 10.0, rng.sym() * 10.0, rng.sym() * 10.0)
    };
    let w = 0.5 + 3.0 * rng.f64();
    let width = if cubic_only || rng.chance(0.3) {
        DVec3::splat(w)
    } else {
        DVec3::new(w, w * (0.2 + 3.0 * rng.f64()), w * (0.2 + 3.0 * rng.f64()))
    };
    // placement families: uniform, clumps, few particles in a fine grid (empty cells
    // and whole empty rings), lattices (exact distance ties, particles exactly on
    // cell boundaries), everything in one corner cell
    // ... and particles a few ulps below the upper faces of the half-open box (the last cell layer,
    // where an index computed with a rounded-up factor steps out of the grid)
    let placement = *rng.pick(&["uniform", "uniform", "clustered", "sparse", "lattice", "corner", "upper_faces"]);
    let n = match placement {
        "sparse" => 2 + rng.below(12) as usize,
        _ => 2 + rng.below(max_n as u64 - 1) as usize,
    };
    let mut pts = vec![];
    let clustered = placement == "clustered";
    let c = DVec3::new(rng.f64(), rng.f64(), rng.f64());
    let lm = ((n as f64).cbrt().ceil() as usize).max(2);
    for i in 0..n {
        let u = if clustered && rng.chance(0.7) {
            (c + 0.05 * DVec3::new(rng.sym(), rng.sym(), rng.sym())).clamp(DVec3::ZERO, DVec3::splat(0.999999))
        } else if placement == "lattice" {
            DVec3::new((i % lm) as f64, ((i / lm) % lm) as f64, (i / (lm * lm)) as f64) / lm as f64
        } else if placement == "corner" {
            0.04 * DVec3::new(rng.f64(), rng.f64(), rng.f64())
        } else {
            DVec3::new(rng.f64(), rng.f64(), rng.f64())
        };
        let mut p = anchor + u * width;
        if placement == "upper_faces" {
            for a in 0..3 {
                if rng.chance(0.45) {
                    // the largest coordinates whose offset from the anchor still rounds below the width
                    let mut x = anchor[a] + width[a];
                    let steps = 1 + rng.below(3);
                    let mut done = 0;
                    for _ in 0..64 {
                        x = f64::from_bits(if x > 0.0 { x.to_bits() - 1 } else if x < 0.0 { x.to_bits() + 1 } else { (-f64::MIN_POSITIVE).to_bits() });
                        if x - anchor[a] < width[a] && x < anchor[a] + width[a] {
                            done += 1;
                            if done >= steps {
                                break;
                            }
                        }
                    }
                    if x - anchor[a] < width[a] && x >= anchor[a] {
                        p[a] = x;
                    }
                }
            }
        }
        // stay inside the half-open box
        for a in 0..3 {
            if p[a] >= anchor[a] + width[a] {
                p[a] = anchor[a];
            }
            if p[a] < anchor[a] {
                p[a] = anchor[a];
            }
        }
        pts.push(p);
    }
    {
        let mut seen = BTreeSet::new();
        pts.retain(|p| seen.insert([p.x.to_bits(), p.y.to_bits(), p.z.to_bits()]));
        if pts.len() < 2 {
            pts.push(anchor + 0.5 * width);
            pts.push(anchor + 0.25 * width);
            let mut seen = BTreeSet::new();
            pts.retain(|p| seen.insert([p.x.to_bits(), p.y.to_bits(), p.z.to_bits()]));
        }
    }
    let frac = if placement == "sparse" { *rng.pick(&[0.26, 0.2, 0.11, 0.11]) } else { *rng.pick(&[1.0, 0.6, 0.34, 0.26, 0.2, 0.11]) };
    // keep the grid small: the search visits O(r^3) cells per ring, so a grid
    // with hundreds of cells along an axis costs minutes without testing more
    let base = if width.max_element() / width.min_element() > 3.0 || rng.chance(0.5) {
        width.max_element()
    } else {
        width.min_element()
    };
    let max_cell_width = base * frac * (0.9 + 0.2 * rng.f64());
    let n = pts.len();
    let k = match rng.below(5) {
        0 => 0,
        1 => n - 1,
        2 => 1.min(n - 1),
        _ => rng.below(n as u64) as usize,
    };
    KnnCase {
        anchor,
        width,
        max_cell_width,
        pts,
        k,
    }
}

fn check_knn(c: &KnnCase) -> Result<(), String> {
    let (anchor, width, mcw, k) = (c.anchor, c.width, c.max_cell_width, c.k);
    let pts = c.pts.clone();
    let n = c.pts.len();
    // Ring-search steps a correct search can need: for every particle, rings until
    // r * (smallest cell width) exceeds the diagonal of the box (the loop's own
    // distance-based exit), plus slack.
    let cdim = (width / mcw).ceil();
    let cw = width / cdim;
    let per_particle = (width.length() / cw.min_element()).ceil() as u64 + 4;
    // That number is what THIS ring search needs. The property only demands that a result comes back, so
    // the budget is 64 times that (a correct search that scans twice, or re-scans on suspected ties, must
    // not be called non-terminating - the neutral refactoring n20c was, at factor 1); a search that does
    // not terminate exceeds any factor.
    let budget = 64 * (n as u64 * per_particle + 16);
    let nn = match with_budget(budget, move || lib::space_knn(anchor, width, mcw, &pts, k)) {
        Ok((x, steps)) => {
            KNN_STEPS.with(|s| s.set(s.get() + steps));
            x
        }
        Err(e) => return Err(format!("knn {}", e)),
    };
    if nn.len() != n {
        return Err(format!("knn returned {} lists for {} particles", nn.len(), n));
    }
    for i in 0..n {
        if nn[i].len() != k {
            return Err(format!("particle {}: {} neighbours instead of {}", i, nn[i].len(), k));
        }
        let mut d2: Vec<f64> = (0..n).filter(|&j| j != i).map(|j| c.pts[i].distance_squared(c.pts[j])).collect();
        d2.sort_by(|a, b| a.partial_cmp(b).unwrap());
        let mut used = BTreeSet::new();
        for (rank, &j) in nn[i].iter().enumerate() {
            if j == i || j >= n || !used.insert(j) {
                return Err(format!("particle {}: neighbour list contains itself, a duplicate or an invalid index", i));
            }
            let got = c.pts[i].distance_squared(c.pts[j]);
            if got != d2[rank] {
                return Err(format!(
                    "particle {}: rank {} has squared distance {:e}, the true {}-th nearest is at {:e}",
                    i, rank, got, rank, d2[rank]
                ));
            }
        }
    }
    Ok(())
}

fn knn_json(c: &KnnCase) -> J {
    let v = |p: DVec3| J::arr([p.x, p.y, p.z].iter().map(|x| J::s(&format!("{:016x}", x.to_bits()))));
    J::obj()
        .set("anchor_bits", v(c.anchor))
        .set("width_bits", v(c.width))
        .set("width", J::arr([c.width.x, c.width.y, c.width.z].iter().map(|x| J::Num(*x))))
        .set("max_cell_width_bits", J::s(&format!("{:016x}", c.max_cell_width.to_bits())))
        .set("max_cell_width", J::Num(c.max_cell_width))
        .set("k", J::u(c.k as u64))
        .set("points", pts_json(&c.pts))
}

fn knn_from(j: &J) -> Result<KnnCase, String> {
    let v = |j: &J| -> Result<DVec3, String> {
        let a = j.as_arr().ok_or("bad vec")?;
        let f = |i: usize| -> Result<f64, String> {
            Ok(f64::from_bits(
                u64::from_str_radix(a[i].as_str().ok_or("bad hex")?, 16).map_err(|e| e.to_string())?,
            ))
        };
        Ok(DVec3::new(f(0)?, f(1)?, f(2)?))
    };
    Ok(KnnCase {
        anchor: v(j.get("anchor_bits").ok_or("anchor")?)?,
        width: v(j.get("width_bits").ok_or("width")?)?,
        max_cell_width: f64::from_bits(
            u64::from_str_radix(j.get("max_cell_width_bits").and_then(|s| s.as_str()).ok_or("mcw")?, 16)
                .map_err(|e| e.to_string())?,
        ),
        k: j.get("k").and_then(|k| k.as_u64()).ok_or("k")? as usize,
        pts: pts_from(j.get("points").ok_or("points")?)?,
    })
}

// ---------------------------------------------------------------------------
// Commands
// ---------------------------------------------------------------------------

/// Shrink a failing point set: drop points while some order still fails.
fn minimise_points(pts: &[DVec3]) -> (Vec<DVec3>, u64, String) {
    let fails = |p: &[DVec3]| -> Option<(u64, String)> {
        if p.len() < 2 {
            return None;
        }
        let (m, _) = epos6_under(p, 0);
        for perm in 0..factorial(m) {
            if let (_, Err(e)) = epos6_under(p, perm) {
                return Some((perm, e));
            }
        }
        None
    };
    let mut cur = pts.to_vec();
    let mut last = fails(&cur).unwrap_or((0, String::new()));
    let mut chunk = (cur.len() / 2).max(1);
    loop {
        let mut i = 0;
        let mut progressed = false;
        while i < cur.len() && cur.len() > 2 {
            let end = (i + chunk).min(cur.len());
            let mut cand = cur.clone();
            cand.drain(i..end);
            if let Some(f) = fails(&cand) {
                cur = cand;
                last = f;
                progressed = true;
            } else {
                i += chunk;
            }
        }
        if chunk == 1 && !progressed {
            break;
        }
        if chunk > 1 {
            chunk /= 2;
        }
    }
    (cur, last.0, last.1)
}

/// Smallest over largest pairwise distance of a point set.
fn near_duplicate_ratio(pts: &[DVec3]) -> f64 {
    let (mut lo, mut hi) = (f64::INFINITY, 0.0f64);
    for i in 0..pts.len() {
        for j in i + 1..pts.len() {
            let d = pts[i].distance(pts[j]);
            lo = lo.min(d);
            hi = hi.max(d);
        }
    }
    if hi > 0.0 {
        lo / hi
    } else {
        1.0
    }
}

/// Signature of a violation, for matching against `known_findings.json`.
fn signature(clause: &str, desc: &str, payload: &J) -> String {
    if (clause == "welzl" || clause == "welzl_structured") && desc.contains("exceeds_minimal") {
        if let Some(Ok(pts)) = payload.get("points").map(pts_from) {
            if near_duplicate_ratio(&pts) < 1e-6 {
                return "welzl_nonminimal_near_duplicate_points".into();
            }
        }
    }
    clause.to_string()
}

struct SlowGuard(u64, Instant);
impl Drop for SlowGuard {
    fn drop(&mut self) {
        if std::env::var("VERIF_VERBOSE").is_ok() && self.1.elapsed().as_secs_f64() > 0.5 {
            eprintln!("slow case {} took {:.2}s", self.0, self.1.elapsed().as_secs_f64());
        }
    }
}

pub fn cmd_c20(args: &Args) -> i32 {
    let seed = args.u64("seed", 1);
    let start = args.u64("start", 0);
    let count = args.u64("count", 1000);
    let stride = args.u64("stride", 1).max(1);
    let out = args.str("out", "/tmp/verif_out");
    let shard = args.u64("shard", 0);
    let replay_dir = args.str("replay-dir", "/verif/replays");
    let time_limit = args.f64("time-limit", 1e9);
    let max_n = args.u64("max-n", 300) as usize;
    let skip_pure = args.flag("skip-pure");
    let known: BTreeSet<String> = args.str("known", "").split(',').filter(|s| !s.is_empty()).map(|s| s.to_string()).collect();
    lib::set_hash_order(Some(seam));
    lib::set_sched_point(Some(step_hook));
    let t0 = Instant::now();
    let real_calls_per_set = args.u64("real-ahash-calls", 6);
    let mut real_ahash_calls = 0u64;
    let mut real_ahash_order_sensitive = 0u64;

    let mut sets = 0u64;
    let mut orders = 0u64;
    let mut nontrivial = 0u64;
    let mut m_hist: BTreeMap<usize, u64> = BTreeMap::new();
    let mut fam_hist: BTreeMap<String, u64> = BTreeMap::new();
    let mut order_sensitive_sets = 0u64; // sets whose resulting sphere differs between orders
    let mut pure: BTreeMap<String, u64> = BTreeMap::new();
    let mut samples: Vec<J> = vec![];
    let mut violations: Vec<J> = vec![];
    let mut known_hits: BTreeMap<String, u64> = BTreeMap::new();
    let mut code = 0;

    let mut report = |clause: &str, idx: u64, desc: &str, payload: J, violations: &mut Vec<J>, known_hits: &mut BTreeMap<String, u64>| -> bool {
        // A known finding is identified by its signature: the clause together with the
        // specific circumstances that make it fail. Anything else is reported.
        let sig = signature(clause, desc, &payload);
        if known.contains(&sig) {
            *known_hits.entry(sig).or_insert(0) += 1;
            return false;
        }
        let j = payload
            .set("property", J::s("C20"))
            .set("engine", J::s("C20:hash-order-seam+oracles"))
            .set("clause", J::s(clause))
            .set("verif_seed", J::s(&seed.to_string()))
            .set("case_index", J::u(idx))
            .set("what", J::s(desc));
        let path = crate::write_replay(&replay_dir, &format!("C20-{}-{}-{}.json", clause, seed, idx), &j);
        println!("C20-VIOLATION property=C20 clause={} case={} what={} replay={}", clause, idx, desc, path);
        violations.push(J::obj().set("clause", J::s(clause)).set("case_index", J::u(idx)).set("what", J::s(desc)).set("replay", J::s(&path)));
        true
    };

    for kk in 0..count {
        if t0.elapsed().as_secs_f64() > time_limit {
            break;
        }
        let idx = start + kk * stride;
        let tc = Instant::now();
        let _guard = SlowGuard(idx, tc);
        // progress marker: if this process dies or hangs the launcher knows which case to re-run alone
        let _ = std::fs::write(format!("{}/c20_shard_{}.progress", out, shard), format!("{}\n", idx));
        let mut rng = Rng::new(mix(seed, idx, 0xC20));
        // ---- simulated clause: Epos6 under every hash order ------------------
        let (fam, pts) = gen_points(&mut rng, max_n);
        sets += 1;
        *fam_hist.entry(fam.clone()).or_insert(0) += 1;
        let (m, _) = epos6_under(&pts, 0);
        *m_hist.entry(m).or_insert(0) += 1;
        let nperm = factorial(m);
        let mut first_bad: Option<(u64, String)> = None;
        let mut results = BTreeSet::new();
        for perm in 0..nperm {
            set_order(perm);
            let r = std::panic::catch_unwind(|| lib::epos6_points(&pts));
            orders += 1;
            if m >= 3 {
                nontrivial += 1;
            }
            match r {
                Err(_) => {
                    first_bad.get_or_insert((perm, "panicked".into()));
                }
                Ok((c, rad)) => {
                    results.insert([c.x.to_bits(), c.y.to_bits(), c.z.to_bits(), rad.to_bits()]);
                    if let Err(e) = contains_all(c, rad, &pts) {
                        first_bad.get_or_insert((perm, e));
                    }
                }
            }
        }
        if results.len() > 1 {
            order_sensitive_sets += 1;
        }
        if samples.len() < 2 {
            set_order(nperm - 1);
            let _ = lib::epos6_points(&pts);
            let (_, ord) = seen();
            samples.push(
                J::obj()
                    .set("case_index", J::u(idx))
                    .set("family", J::s(&fam))
                    .set("n_points", J::u(pts.len() as u64))
                    .set("extremal_set_size", J::u(m as u64))
                    .set("orders_run", J::u(nperm))
                    .set("distinct_result_spheres", J::u(results.len() as u64))
                    .set("last_order_fed_to_welzl", J::arr(ord.iter().map(|i| J::u(*i as u64)))),
            );
        }
        if let Some((perm, e)) = first_bad {
            let (mp, mperm, me) = minimise_points(&pts);
            let (use_pts, use_perm, use_e) = if mp.len() >= 2 && !me.is_empty() { (mp, mperm, me) } else { (pts.clone(), perm, e.clone()) };
            set_order(use_perm);
            let _ = std::panic::catch_unwind(|| lib::epos6_points(&use_pts));
            let (_, ord) = seen();
            let payload = J::obj()
                .set("points", pts_json(&use_pts))
                .set("order_index", J::u(use_perm))
                .set("order", J::arr(ord.iter().map(|i| J::u(*i as u64))))
                .set("family", J::s(&fam))
                .set("original_points", J::u(pts.len() as u64))
                .set("original_order_index", J::u(perm));
            if report("epos6_order", idx, &use_e.replace(' ', "_"), payload, &mut violations, &mut known_hits) {
                code = 1;
                break;
            }
        }

        // ---- supplementary: the REAL ahash order, natively (seam off) -------------
        // Every `HashSet::new()` draws a fresh key, so repeated calls see different
        // orders. Uncontrolled, hence never decisive on its own, but a miss is a miss:
        // it also covers hash-ordered iteration that does not pass through the seam.
        if real_calls_per_set > 0 {
            lib::set_hash_order(None);
            let mut bad: Option<String> = None;
            let mut distinct = BTreeSet::new();
            for _ in 0..real_calls_per_set {
                real_ahash_calls += 1;
                match std::panic::catch_unwind(|| lib::epos6_points(&pts)) {
                    Err(_) => {
                        bad.get_or_insert("panicked".into());
                    }
                    Ok((c, rad)) => {
                        distinct.insert([c.x.to_bits(), c.y.to_bits(), c.z.to_bits(), rad.to_bits()]);
                        if let Err(e) = contains_all(c, rad, &pts) {
                            bad.get_or_insert(e);
                        }
                    }
                }
            }
            lib::set_hash_order(Some(seam));
            if distinct.len() > 1 {
                real_ahash_order_sensitive += 1;
            }
            if let Some(e) = bad {
                let payload = J::obj()
                    .set("points", pts_json(&pts))
                    .set("family", J::s(&fam))
                    .set("replay", J::s("probabilistic: the real ahash order is drawn per call; the replay repeats the call"));
                if report("epos6_real_ahash", idx, &e.replace(' ', "_"), payload, &mut violations, &mut known_hits) {
                    code = 1;
                    break;
                }
            }
        }

        if skip_pure {
            continue;
        }
        // ---- pure clauses: exercised, not simulated ---------------------------
        // Welzl containment on the same set (capped: the recursion is exponential-ish
        // in the worst case but linear in practice), minimality on a small generic subset
        let wcap = if rng.chance(0.2) { 120 } else { 14 };
        let wpts: Vec<DVec3> = pts.iter().copied().take(wcap).collect();
        *pure.entry("welzl_containment".into()).or_insert(0) += 1;
        if let Err(e) = check_welzl(&wpts, false) {
            let payload = J::obj().set("points", pts_json(&wpts)).set("minimal", J::Bool(false));
            if report("welzl", idx, &e.replace(' ', "_"), payload, &mut violations, &mut known_hits) {
                code = 1;
                break;
            }
        }
        {
            let nsmall = 2 + rng.below(7) as usize;
            let small: Vec<DVec3> = (0..nsmall).map(|_| DVec3::new(rng.sym(), rng.sym(), rng.sym())).collect();
            *pure.entry("welzl_minimality".into()).or_insert(0) += 1;
            if let Err(e) = check_welzl(&small, true) {
                let payload = J::obj().set("points", pts_json(&small)).set("minimal", J::Bool(true));
                if report("welzl", idx, &e.replace(' ', "_"), payload, &mut violations, &mut known_hits) {
                    code = 1;
                    break;
                }
            }
        }
        // minimality on a small subset of the structured set (any family), under a few
        // input orders: the minimal sphere is unique, so the order must not matter
        {
            let mut sub: Vec<DVec3> = pts.clone();
            rng.shuffle(&mut sub);
            sub.truncate(2 + rng.below(7) as usize);
            if rng.chance(0.15) {
                // special positions: the origin, a point on an axis
                let at = rng.below(sub.len() as u64 + 1) as usize;
                sub.insert(at, if rng.chance(0.5) { DVec3::ZERO } else { DVec3::new(rng.sym(), 0.0, 0.0) });
                let mut seen = BTreeSet::new();
                sub.retain(|p| seen.insert([(p.x + 0.0).to_bits(), (p.y + 0.0).to_bits(), (p.z + 0.0).to_bits()]));
            }
            let mut failed = false;
            for rep in 0..3 {
                if rep > 0 {
                    rng.shuffle(&mut sub);
                }
                *pure.entry("welzl_minimality_structured".into()).or_insert(0) += 1;
                if let Err(e) = check_welzl(&sub, true) {
                    let payload = J::obj().set("points", pts_json(&sub)).set("minimal", J::Bool(true)).set("family", J::s(&fam));
                    if report("welzl_structured", idx, &e.replace(' ', "_"), payload, &mut violations, &mut known_hits) {
                        code = 1;
                        failed = true;
                    }
                    break;
                }
            }
            if failed {
                break;
            }
        }
        // sphere of spheres
        {
            let ns = 1 + rng.below(30) as usize;
            let mut sph: Vec<(DVec3, f64)> = (0..ns)
                .map(|_| (DVec3::new(rng.sym() * 4.0, rng.sym() * 4.0, rng.sym() * 4.0), 0.01 + rng.f64()))
                .collect();
            // structured families: one sphere dominating the others (nested / concentric),
            // a single sphere, very unequal radii, points (zero radius), far from the origin
            match rng.below(10) {
                6 => {
                    // centres on one line (an axis, or a random direction); in half of the sets every
                    // sphere lies inside the first one and touches it from the inside (internally tangent)
                    let c0 = sph[0].0;
                    let d = match rng.below(4) {
                        0 => DVec3::X,
                        1 => DVec3::Y,
                        2 => DVec3::Z,
                        _ => DVec3::new(rng.sym(), rng.sym(), rng.sym() + 1.5).normalize(),
                    };
                    let tangent = rng.chance(0.5);
                    let r0 = 1.0 + rng.f64();
                    for (i, s) in sph.iter_mut().enumerate() {
                        if tangent {
                            if i == 0 {
                                *s = (c0, r0);
                            } else {
                                let ri = r0 * (0.05 + 0.9 * rng.f64());
                                let side = if rng.chance(0.5) { 1.0 } else { -1.0 };
                                *s = (c0 + d * (side * (r0 - ri)), ri);
                            }
                        } else {
                            s.0 = c0 + d * (rng.sym() * 5.0);
                        }
                    }
                }
                7 => {
                    // equal spheres on an axis-aligned lattice: their poles tie in every direction
                    let r = 0.2 + 0.3 * rng.f64();
                    let m = 2 + rng.below(2) as i64;
                    sph.clear();
                    for i in 0..m {
                        for j in 0..m {
                            for k in 0..(1 + rng.below(2) as i64) {
                                sph.push((DVec3::new(i as f64, j as f64, k as f64), r));
                            }
                        }
                    }
                    rng.shuffle(&mut sph);
                    sph.truncate(2 + rng.below(sph.len() as u64 - 1) as usize);
                }
                0 => {
                    let c = DVec3::new(rng.sym() * 4.0, rng.sym() * 4.0, rng.sym() * 4.0);
                    let big = 20.0 + 10.0 * rng.f64();
                    let at = rng.below(sph.len() as u64 + 1) as usize;
                    sph.insert(at, (c, big));
                }
                1 => {
                    sph.truncate(1);
                }
                2 => {
                    let c = sph[0].0;
                    for (i, s) in sph.iter_mut().enumerate() {
                        s.0 = c;
                        s.1 = 0.1 + i as f64 * 0.37;
                    }
                }
                3 => {
                    for s in sph.iter_mut() {
                        s.1 *= 10f64.powf(rng.sym() * 8.0);
                    }
                }
                4 => {
                    // tiny but positive radii next to ordinary ones (radius > 0 is input
                    // validity, like pairwise distinct points)
                    for s in sph.iter_mut() {
                        if rng.chance(0.5) {
                            s.1 = 1e-9 * (1.0 + rng.f64());
                        }
                    }
                }
                5 => {
                    let o = DVec3::new(1e6, -3e5, 7e5);
                    for s in sph.iter_mut() {
                        s.0 += o;
                    }
                }
                _ => {}
            }
            *pure.entry("sphere_of_spheres".into()).or_insert(0) += 1;
            if let Err(e) = check_spheres(&sph) {
                let payload = J::obj().set(
                    "spheres",
                    J::arr(sph.iter().map(|(c, r)| {
                        J::arr([c.x, c.y, c.z, *r].iter().map(|x| J::s(&format!("{:016x}", x.to_bits()))))
                    })),
                );
                if report("spheres", idx, &e.replace(' ', "_"), payload, &mut violations, &mut known_hits) {
                    code = 1;
                    break;
                }
            }
        }
        // k-NN: cubic and non-cubic boxes are separate clauses so that a known
        // finding in one does not hide the other
        for cubic in [true, false] {
            let c = gen_knn(&mut rng, cubic, 120);
            let is_cubic = c.width.x == c.width.y && c.width.y == c.width.z;
            let clause = if is_cubic { "knn_cubic" } else { "knn_noncubic" };
            *pure.entry(clause.into()).or_insert(0) += 1;
            if let Err(e) = check_knn(&c) {
                let payload = J::obj().set("knn", knn_json(&c));
                if report(clause, idx, &e.replace(' ', "_"), payload, &mut violations, &mut known_hits) {
                    code = 1;
                    break;
                }
            }
        }
        if code != 0 {
            break;
        }
    }

    let j = J::obj()
        .set("engine", J::s("C20"))
        .set("shard", J::u(shard))
        .set("seed", J::s(&seed.to_string()))
        .set("point_sets", J::u(sets))
        .set("orders_run", J::u(orders))
        .set("nontrivial_orders", J::u(nontrivial))
        .set("order_sensitive_sets", J::u(order_sensitive_sets))
        .set("extremal_set_size_hist", J::Obj(m_hist.into_iter().map(|(k, v)| (k.to_string(), J::u(v))).collect()))
        .set("families", J::Obj(fam_hist.into_iter().map(|(k, v)| (k, J::u(v))).collect()))
        .set("exercised_not_simulated", J::Obj(pure.into_iter().map(|(k, v)| (k, J::u(v))).collect()))
        .set("known_finding_hits", J::Obj(known_hits.into_iter().map(|(k, v)| (k, J::u(v))).collect()))
        .set("samples", J::Arr(samples))
        .set("violations", J::Arr(violations))
        .set("real_ahash_calls", J::u(real_ahash_calls))
        .set("real_ahash_order_sensitive_sets", J::u(real_ahash_order_sensitive))
        .set("knn_ring_steps", J::u(KNN_STEPS.with(|s| s.get())))
        .set("wall_s", J::Num(t0.elapsed().as_secs_f64()));
    let _ = std::fs::create_dir_all(&out);
    let _ = std::fs::write(format!("{}/c20_shard_{}.json", out, shard), j.pretty());
    code
}

pub fn replay(j: &J, path: &str, args: &Args) -> i32 {
    lib::set_hash_order(Some(seam));
    lib::set_sched_point(Some(step_hook));
    let clause = j.get("clause").and_then(|c| c.as_str()).unwrap_or("");
    let res: Result<(), String> = (|| match clause {
        "epos6_order" => {
            let pts = pts_from(j.get("points").ok_or("points missing")?)?;
            let perm = j.get("order_index").and_then(|o| o.as_u64()).ok_or("order_index missing")?;
            let (_, r) = epos6_under(&pts, perm);
            let (_, ord) = seen();
            println!("replayed Epos6 with order {:?}", ord);
            r
        }
        "epos6_real_ahash" => {
            let pts = pts_from(j.get("points").ok_or("points missing")?)?;
            lib::set_hash_order(None);
            let reps = args.u64("reps", 5000);
            let mut r = Ok(());
            for i in 0..reps {
                let res = std::panic::catch_unwind(|| lib::epos6_points(&pts));
                let e = match res {
                    Err(_) => Err("panicked".to_string()),
                    Ok((c, rad)) => contains_all(c, rad, &pts),
                };
                if e.is_err() {
                    println!("replayed Epos6 with the real ahash order: failed at attempt {}", i);
                    r = e;
                    break;
                }
            }
            lib::set_hash_order(Some(seam));
            r
        }
        "welzl" | "welzl_structured" => {
            let pts = pts_from(j.get("points").ok_or("points missing")?)?;
            let minimal = j.get("minimal").and_then(|m| m.as_bool()).unwrap_or(false);
            // A pure function fails at the first attempt or never. If the first attempt
            // passes, the recorded failure depended on something that is not in the input
            // (a per-call hash order, say): repeat, and say so.
            let mut r = check_welzl(&pts, minimal);
            if r.is_ok() {
                for i in 1..args.u64("reps", 3000) {
                    r = check_welzl(&pts, minimal);
                    if r.is_err() {
                        println!("note: passed {} times before failing: the result depends on something other than the input", i);
                        break;
                    }
                }
            }
            r
        }
        "spheres" => {
            let sph = j
                .get("spheres")
                .and_then(|s| s.as_arr())
                .ok_or("spheres missing")?
                .iter()
                .map(|s| {
                    let a = s.as_arr().ok_or("bad sphere")?;
                    let f = |i: usize| -> Result<f64, String> {
                        Ok(f64::from_bits(
                            u64::from_str_radix(a[i].as_str().ok_or("bad hex")?, 16).map_err(|e| e.to_string())?,
                        ))
                    };
                    Ok((DVec3::new(f(0)?, f(1)?, f(2)?), f(3)?))
                })
                .collect::<Result<Vec<_>, String>>()?;
            let mut r = check_spheres(&sph);
            if r.is_ok() {
                for i in 1..args.u64("reps", 3000) {
                    r = check_spheres(&sph);
                    if r.is_err() {
                        println!("note: passed {} times before failing: the result depends on something other than the input", i);
                        break;
                    }
                }
            }
            r
        }
        "knn_cubic" | "knn_noncubic" => {
            let c = knn_from(j.get("knn").ok_or("knn missing")?)?;
            let mut r = check_knn(&c);
            if r.is_ok() {
                for i in 1..args.u64("reps", 200) {
                    r = check_knn(&c);
                    if r.is_err() {
                        println!("note: passed {} times before failing: the result depends on something other than the input", i);
                        break;
                    }
                }
            }
            r
        }
        _ => Err(format!("HARNESS unknown clause {}", clause)),
    })();
    match res {
        Ok(()) => {
            println!("REPLAY-NO-VIOLATION property=C20 replay={}", path);
            0
        }
        Err(e) if e.starts_with("HARNESS") || e.ends_with("missing") => {
            eprintln!("replay: {}", e);
            2
        }
        Err(e) => {
            println!("replayed: {}", e);
            println!("VIOLATION property=C20 replay={}", path);
            1
        }
    }
}
