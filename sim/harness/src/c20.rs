//! C20. See DESIGN.md §4.
use crate::Args;
use vcore::json::J;

pub fn cmd_c20(_args: &Args) -> i32 {
    2
}
pub fn replay(_j: &J, _path: &str, _args: &Args) -> i32 {
    2
}
