//! Engine E1 command-line front end: shards of simulated runs, determinism
//! traces, replay.

use crate::c09::*;
use crate::Args;
use sim_rayon::sim::Stats;
use std::collections::{BTreeMap, BTreeSet};
use std::io::Write;
use std::time::Instant;
use vcore::json::J;

fn limits(args: &Args) -> Limits {
    Limits {
        max_n: args.u64("max-n", 200) as usize,
        max_pool: args.u64("max-pool", 64) as usize,
        allow_hooks: !args.flag("no-hooks"),
    }
}

fn stats_json(s: &Stats) -> J {
    J::obj()
        .set("ops", J::u(s.ops))
        .set("leaves", J::u(s.leaves))
        .set("items", J::u(s.items))
        .set("splits", J::u(s.splits))
        .set("joins", J::u(s.joins))
        .set("steals", J::u(s.steals))
        .set("injected", J::u(s.injected))
        .set("context_switches", J::u(s.context_switches))
        .set("preempt_item", J::u(s.preempt_item))
        .set("preempt_hook", J::u(s.preempt_hook))
        .set("preempt_join", J::u(s.preempt_join))
        .set("stalls", J::u(s.stalls))
        .set("pct_changes", J::u(s.pct_changes))
        .set("reentrant_steals", J::u(s.reentrant_steals))
        .set("pool_switches", J::u(s.pool_switches))
        .set("yields", J::u(s.yields))
        .set("hook_yields", J::u(s.hook_yields))
        .set("max_in_flight", J::u(s.max_in_flight))
        .set("max_leaves_per_op", J::u(s.max_leaves_per_op))
        .set("unstable_sort_perms", J::u(s.unstable_sort_perms))
        .set("find_any_choices", J::u(s.find_any_choices))
        .set("scheduler_steps", J::u(s.scheduler_steps))
        .set("decisions", J::u(s.decisions))
        .set("out_of_order_items", J::u(s.out_of_order_items))
        .set("workers_used_max", J::u(s.workers_used_max))
        .set("clock_drift_ops", J::u(s.clock_drift_ops))
        .set("clock_jumps", J::u(s.clock_jumps))
        .set("clock_ns_added", J::u(s.clock_ns_added))
        .set("bb_yields", J::u(s.bb_yields))
        .set("bb_rare_yields", J::u(s.bb_rare_yields))
        .set("preempt_bb", J::u(s.preempt_bb))
        .set("preempt_bb_rare", J::u(s.preempt_bb_rare))
        .set("bb_guards_passed", J::u(s.bb_guards_passed))
        .set("futex_waits", J::u(s.futex_waits))
        .set("futex_wakes", J::u(s.futex_wakes))
        .set("futex_timeouts", J::u(s.futex_timeouts))
        .set("sleeps_simulated", J::u(s.sleeps_simulated))
        .set("fairness_switches", J::u(s.fairness_switches))
        .set("spin_yields", J::u(s.spin_yields))
        .set("rare_site_suspensions", J::u(s.rare_site_suspensions))
        .set("atomic_yields", J::u(s.atomic_yields))
        .set("preempt_atomic", J::u(s.preempt_atomic))
        .set("ops_with_outside_threads", J::u(s.ops_with_outside_threads))
        .set("threads_adopted", J::u(s.threads_adopted))
}

fn fnv_u32s(d: &[u32]) -> u64 {
    let mut h: u64 = 0xcbf29ce484222325;
    for x in d {
        for b in x.to_le_bytes() {
            h ^= b as u64;
            h = h.wrapping_mul(0x100000001B3);
        }
    }
    h
}

fn plan_brief(plan: &Plan) -> J {
    J::obj()
        .set("run_index", J::u(plan.run_index))
        .set("dim", J::u(plan.cases[0].dim as u64))
        .set("periodic", J::Bool(plan.cases[0].periodic))
        .set("n", J::u(plan.cases[0].n() as u64))
        .set("family", J::s(&plan.cases[0].family))
        .set("pool_sizes", J::arr(plan.pool_sizes.iter().map(|p| J::u(*p as u64))))
        .set("inputs", J::arr(plan.cases.iter().map(|c| J::s(&format!("{} n={}", c.family, c.n())))))
        .set(
            "history",
            J::arr(plan.history.iter().map(|h| {
                J::s(&format!(
                    "{}(input{}){}@pool{}:{}/{}{}",
                    h.op.name(),
                    h.case,
                    match h.with {
                        Some((o, c)) => format!(" || {}(input{})", o.name(), c),
                        None => String::new(),
                    },
                    h.pool,
                    split_name(h.split),
                    sched_name(h.sched),
                    if h.bb && h.hooks { "+hooks+bb" } else if h.bb { "+bb" } else if h.hooks { "+hooks" } else { "" }
                ))
            })),
        )
}

use crate::write_replay;

pub fn cmd_e1(args: &Args) -> i32 {
    let seed = args.u64("seed", 1);
    let start = args.u64("start", 0);
    let count = args.u64("count", 100);
    let stride = args.u64("stride", 1).max(1);
    let lim = limits(args);
    let out = args.str("out", "/tmp/verif_out");
    let shard = args.u64("shard", 0);
    let time_limit = args.f64("time-limit", 1e9);
    let watchdog = args.u64("watchdog", 20);
    let replay_dir = args.str("replay-dir", "/verif/replays");
    let t0 = Instant::now();

    let mut total = Stats::default();
    let mut runs = 0u64;
    let mut nontrivial_runs = 0u64;
    let mut ops_run = 0u64;
    let mut values_compared = 0u64;
    let mut panics_both = 0u64;
    let mut hashes: BTreeSet<u64> = BTreeSet::new();
    let mut sections = 0u64;
    let mut shapes: BTreeSet<u64> = BTreeSet::new();
    let mut modes: BTreeMap<String, u64> = BTreeMap::new();
    let mut pools: BTreeMap<usize, u64> = BTreeMap::new();
    let mut families: BTreeMap<String, u64> = BTreeMap::new();
    let mut opkinds: BTreeMap<String, u64> = BTreeMap::new();
    let mut dims: BTreeMap<String, u64> = BTreeMap::new();
    let mut leaves_hist: BTreeMap<u64, u64> = BTreeMap::new();
    let mut samples: Vec<J> = vec![];
    let mut pristine_checks = 0u64;
    let mut runs_with_variants = 0u64;
    let mut input_changes = 0u64;
    let mut concurrent_ops = 0u64;
    let mut cpus_hist: std::collections::BTreeMap<usize, u64> = std::collections::BTreeMap::new();
    let mut faults_planned = 0u64;
    let mut faults_fired = 0u64;
    let mut bb_ops = 0u64;
    let mut variant_kinds: BTreeMap<String, u64> = BTreeMap::new();
    let mut last = start;
    let mut code = 0;
    let mut violation_json = J::Null;

    let mut k = 0u64;
    while k < count {
        let idx = start + k * stride;
        k += 1;
        if t0.elapsed().as_secs_f64() > time_limit {
            break;
        }
        last = idx;
        let plan = plan_run(seed, idx, &lim);
        // progress marker: if the process is killed as blocked the launcher knows where
        if let Ok(mut f) = std::fs::File::create(format!("{}/e1_shard_{}.progress", out, shard)) {
            let _ = writeln!(f, "{}", idx);
        }
        let (r, v) = run_plan(&plan, None, watchdog, k % 16 == 1);
        runs += 1;
        total.add(&r.stats);
        ops_run += plan.history.len() as u64;
        for (o, o2) in &r.outcomes {
            for o in std::iter::once(o).chain(o2.iter()) {
                match o {
                    vcore::Outcome::Ok(d) => values_compared += d.values(),
                    vcore::Outcome::Panic(_) => panics_both += 1,
                }
            }
        }
        pristine_checks += r.pristine_checked;
        if plan.cases.len() > 1 {
            runs_with_variants += 1;
            let mut prev: Option<usize> = None;
            for h in &plan.history {
                if prev.map_or(false, |p| p != h.case) {
                    input_changes += 1;
                }
                prev = Some(h.case);
            }
            for c in &plan.cases[1..] {
                *variant_kinds.entry(c.family.rsplit('+').next().unwrap_or("?").to_string()).or_insert(0) += 1;
            }
        }
        concurrent_ops += plan.history.iter().filter(|h| h.with.is_some()).count() as u64;
        *cpus_hist.entry(plan.cpus).or_insert(0) += 1;
        bb_ops += plan.history.iter().filter(|h| h.bb).count() as u64;
        for (h, (o, _)) in plan.history.iter().zip(r.outcomes.iter()) {
            if crate::c09::fault_of(&plan, h).is_some() {
                faults_planned += 1;
                if let vcore::Outcome::Panic(m) = o {
                    if m.starts_with("verif: injected") {
                        faults_fired += 1;
                    }
                }
            }
        }
        let mut nontrivial = false;
        for (h, (ih, sh, leaves)) in plan.history.iter().zip(r.op_hashes.iter().chain(std::iter::repeat(&(0, 0, 0)))) {
            let _ = h;
            *leaves_hist.entry((*leaves).min(64)).or_insert(0) += 1;
            if *leaves >= 2 {
                shapes.insert(*sh);
            }
        }
        // op_hashes has one entry per *root parallel section*, several per op
        for (ih, sh, leaves) in &r.op_hashes {
            sections += 1;
            if *leaves >= 2 && r.stats.workers_used_max >= 2 {
                hashes.insert(*ih);
                nontrivial = true;
            }
            if *leaves >= 2 {
                shapes.insert(*sh);
            }
        }
        if nontrivial {
            nontrivial_runs += 1;
        }
        for h in &plan.history {
            *modes.entry(format!("{}/{}", split_name(h.split), sched_name(h.sched))).or_insert(0) += 1;
            *pools.entry(plan.pool_sizes[h.pool]).or_insert(0) += 1;
            *opkinds.entry(h.op.name().to_string()).or_insert(0) += 1;
        }
        *families.entry(plan.cases[0].family.clone()).or_insert(0) += 1;
        *dims
            .entry(format!("{}d{}", plan.cases[0].dim, if plan.cases[0].periodic { "p" } else { "" }))
            .or_insert(0) += 1;
        if samples.len() < 3 {
            samples.push(plan_brief(&plan).set(
                "decisions_hash",
                J::s(&format!("{:016x}", fnv_u32s(&r.decisions))),
            ).set("decisions_len", J::u(r.decisions.len() as u64)).set(
                "outcomes",
                J::arr(r.outcomes.iter().map(|o| J::s(&o.0.short()))),
            ));
        }

        if let Some(v) = v {
            // report: full replay first, then a minimised one
            let full = replay_json(&plan, &r.decisions, &v, false, &[]);
            let full_path = write_replay(&replay_dir, &format!("C09-{}-{}-full.json", seed, idx), &full);
            let m = minimise(&plan, &r.decisions, &r.marks, &v, watchdog, args.u64("min-budget", 1500));
            let mut notes = m.steps.clone();
            notes.push(format!("minimisation evaluations: {}", m.evaluations));
            notes.push(format!("unminimised replay: {}", full_path));
            let mj = replay_json(&m.plan, &m.decisions, &m.violation, true, &notes);
            let min_path = write_replay(&replay_dir, &format!("C09-{}-{}.json", seed, idx), &mj);
            // batch-kind replay: regenerate everything from the seed, from the
            // first run of this shard (covers state leaking between runs)
            let bj = J::obj()
                .set("property", J::s("C09"))
                .set("engine", J::s("E1:sim_rayon"))
                .set("kind", J::s("batch"))
                .set("verif_seed", J::s(&seed.to_string()))
                .set("start", J::u(start))
                .set("stride", J::u(stride))
                .set("run_index", J::u(idx))
                .set("max_n", J::u(lim.max_n as u64))
                .set("max_pool", J::u(lim.max_pool as u64))
                .set("allow_hooks", J::Bool(lim.allow_hooks));
            let batch_path = write_replay(&replay_dir, &format!("C09-{}-{}-batch.json", seed, idx), &bj);
            violation_json = J::obj()
                .set("run_index", J::u(idx))
                .set("op", J::s(v.op.name()))
                .set("component", J::s(&v.component))
                .set("class", J::s(&v.class))
                .set("replay_min", J::s(&min_path))
                .set("replay_full", J::s(&full_path))
                .set("replay_batch", J::s(&batch_path))
                .set("min_generators", J::u(m.plan.cases[0].n() as u64))
                .set("min_ops", J::u(m.plan.history.len() as u64));
            println!(
                "E1-VIOLATION property=C09 run={} op={} component={} class={} replay_min={} replay_full={} replay_batch={}",
                idx, v.op.name(), v.component, v.class, min_path, full_path, batch_path
            );
            code = 1;
            break;
        }
    }

    let wall = t0.elapsed().as_secs_f64();
    let j = J::obj()
        .set("engine", J::s("E1"))
        .set("seed", J::s(&seed.to_string()))
        .set("shard", J::u(shard))
        .set("start", J::u(start))
        .set("stride", J::u(stride))
        .set("last", J::u(last))
        .set("runs", J::u(runs))
        .set("nontrivial_runs", J::u(nontrivial_runs))
        .set("ops", J::u(ops_run))
        .set("values_compared", J::u(values_compared))
        .set("panics_both_sides", J::u(panics_both))
        .set("pristine_reference_checks", J::u(pristine_checks))
        .set("runs_with_input_variants", J::u(runs_with_variants))
        .set("input_changes_between_ops", J::u(input_changes))
        .set("concurrent_op_pairs", J::u(concurrent_ops))
        .set("faults_planned", J::u(faults_planned))
        .set("faults_fired", J::u(faults_fired))
        .set("bb_ops", J::u(bb_ops))
        .set("runs_not_simulated_large_input_whose_sequential_build_panics", J::u(crate::c09::SKIPPED_LARGE_SEQ_PANIC.load(std::sync::atomic::Ordering::Relaxed)))
        .set("runs_not_simulated_reference_over_work_budget", J::u(crate::c09::SKIPPED_TOO_EXPENSIVE.load(std::sync::atomic::Ordering::Relaxed)))
        .set("variant_kinds", J::Obj(variant_kinds.into_iter().map(|(k, v)| (k, J::u(v))).collect()))
        .set("simulated_clock_reads", J::u(sim_rayon::clock::reads()))
        .set("simulated_affinity_reads", J::u(sim_rayon::sys::affinity_reads()))
        .set("exact_predicate_calls", J::u(sim_rayon::sim::exact_predicate_calls()))
        .set("simulated_cpus", J::Obj(cpus_hist.into_iter().map(|(k, v)| (if k == 0 { "real".to_string() } else { format!("{:03}", k) }, J::u(v))).collect()))
        .set("wall_s", J::Num(wall))
        .set(
            "seconds_in",
            J::obj()
                .set("sequential_references", J::Num(T_REF.load(std::sync::atomic::Ordering::Relaxed) as f64 / 1e6))
                .set("pristine_process_references", J::Num(T_PRISTINE.load(std::sync::atomic::Ordering::Relaxed) as f64 / 1e6))
                .set("simulated_histories", J::Num(T_SIM.load(std::sync::atomic::Ordering::Relaxed) as f64 / 1e6)),
        )
        .set("stats", stats_json(&total))
        .set("parallel_sections", J::u(sections))
        .set("distinct_interleavings", J::u(hashes.len() as u64))
        .set("distinct_split_shapes", J::u(shapes.len() as u64))
        .set("modes", J::Obj(modes.into_iter().map(|(k, v)| (k, J::u(v))).collect()))
        .set("pool_sizes", J::Obj(pools.into_iter().map(|(k, v)| (k.to_string(), J::u(v))).collect()))
        .set("families", J::Obj(families.into_iter().map(|(k, v)| (k, J::u(v))).collect()))
        .set("op_kinds", J::Obj(opkinds.into_iter().map(|(k, v)| (k, J::u(v))).collect()))
        .set("dims", J::Obj(dims.into_iter().map(|(k, v)| (k, J::u(v))).collect()))
        .set(
            "leaves_per_section_hist",
            J::Obj(leaves_hist.into_iter().map(|(k, v)| (format!("{:02}", k), J::u(v))).collect()),
        )
        .set("samples", J::Arr(samples))
        .set("violation", violation_json);
    let _ = std::fs::create_dir_all(&out);
    let _ = std::fs::write(format!("{}/e1_shard_{}.json", out, shard), j.pretty());
    // hashes for cross-shard distinct counting
    let mut buf = Vec::with_capacity(hashes.len() * 8);
    for h in &hashes {
        buf.extend_from_slice(&h.to_le_bytes());
    }
    let _ = std::fs::write(format!("{}/e1_shard_{}.hashes", out, shard), buf);
    code
}

/// Only the sequential references of one run (used to classify a crash: does
/// the sequential build die on this input too?).
pub fn cmd_ref(args: &Args) -> i32 {
    let seed = args.u64("seed", 1);
    let idx = args.u64("start", 0);
    let plan = plan_run(seed, idx, &limits(args));
    let w0 = crate::REFERENCE_WORK.load(std::sync::atomic::Ordering::Relaxed);
    let refs = reference(&plan);
    println!("reference work: {} hook passes", crate::REFERENCE_WORK.load(std::sync::atomic::Ordering::Relaxed) - w0);
    if args.flag("print") {
        for ((c, op, f), o) in &refs {
            println!("REF {} {}{} {}", c, op.name(), f.map_or(String::new(), |(a, b)| format!("!{}.{}", a, b)), o.to_line());
        }
    }
    // for the launcher's crash / hang triage: a sequential build that panics by itself stops at the first
    // failing cell, so its cost says nothing about the cost of the parallel call
    if refs.iter().any(|(k, o)| k.2.is_none() && matches!(o, vcore::Outcome::Panic(_))) {
        println!("SEQ-PANIC");
    }
    println!("references computed: {}", refs.len());
    0
}

/// Development aid: what run `idx` would be, without executing it (`--min-n` filters).
pub fn cmd_plan_info(args: &Args) -> i32 {
    let seed = args.u64("seed", 1);
    let start = args.u64("start", 0);
    let count = args.u64("count", 1000);
    let min_n = args.u64("min-n", 0) as usize;
    let lim = limits(args);
    for idx in start..start + count {
        let plan = plan_run(seed, idx, &lim);
        let n = plan.cases.iter().map(|c| c.n()).max().unwrap_or(0);
        if n >= min_n {
            let ops: Vec<String> = plan.history.iter().map(|h| format!("{}{}{}", h.op.name(), if h.bb { "+bb" } else { "" }, if h.with.is_some() { "+with" } else { "" })).collect();
            println!("run={} n={} dim={} periodic={} family={} cases={} ops=[{}]", idx, n, plan.cases[0].dim, plan.cases[0].periodic, plan.cases[0].family, plan.cases.len(), ops.join(","));
        }
    }
    0
}

/// One line per run, for determinism diffs between processes.
pub fn cmd_trace(args: &Args) -> i32 {
    let seed = args.u64("seed", 1);
    let start = args.u64("start", 0);
    let count = args.u64("count", 50);
    let stride = args.u64("stride", 1).max(1);
    let lim = limits(args);
    for k in 0..count {
        let idx = start + k * stride;
        let plan = plan_run(seed, idx, &lim);
        let (r, v) = run_plan(&plan, None, args.u64("watchdog", 20), false);
        let oh: Vec<String> = r.op_hashes.iter().map(|(a, b, c)| format!("{:x}.{:x}.{}", a, b, c)).collect();
        let oc: Vec<String> = r
            .outcomes
            .iter()
            .map(|o| match &o.1 {
                Some(b) => format!("{}|{}", o.0.short(), b.short()),
                None => o.0.short(),
            })
            .collect();
        println!(
            "run={} n={} dec={:016x}/{} steps={} switches={} outside_threads={} adopted_threads={} ops=[{}] out=[{}] viol={}",
            idx,
            plan.cases[0].n(),
            fnv_u32s(&r.decisions),
            r.decisions.len(),
            r.stats.scheduler_steps,
            r.stats.context_switches,
            r.stats.ops_with_outside_threads,
            r.stats.threads_adopted,
            oh.join(","),
            oc.join(","),
            v.is_some()
        );
    }
    0
}

pub fn replay(j: &J, path: &str, args: &Args) -> i32 {
    let kind = j.get("kind").and_then(|k| k.as_str()).unwrap_or("single");
    let watchdog = args.u64("watchdog", 20);
    if kind == "batch" {
        let seed: u64 = j.get("verif_seed").and_then(|s| s.as_str()).and_then(|s| s.parse().ok()).unwrap_or(0);
        let start = j.get("start").and_then(|s| s.as_u64()).unwrap_or(0);
        let stride = j.get("stride").and_then(|s| s.as_u64()).unwrap_or(1).max(1);
        let target = j.get("run_index").and_then(|s| s.as_u64()).unwrap_or(0);
        let lim = Limits {
            max_n: j.get("max_n").and_then(|s| s.as_u64()).unwrap_or(200) as usize,
            max_pool: j.get("max_pool").and_then(|s| s.as_u64()).unwrap_or(64) as usize,
            allow_hooks: j.get("allow_hooks").and_then(|s| s.as_bool()).unwrap_or(true),
        };
        let mut idx = start;
        loop {
            let plan = plan_run(seed, idx, &lim);
            let (_r, v) = run_plan(&plan, None, watchdog, false);
            if let Some(v) = v {
                println!(
                    "replayed batch: run={} op={} component={} sim={} ref={}",
                    idx, v.op.name(), v.component, v.sim, v.reference
                );
                println!("VIOLATION property=C09 replay={}", path);
                return 1;
            }
            if idx >= target {
                break;
            }
            idx += stride;
        }
        println!("REPLAY-NO-VIOLATION property=C09 replay={}", path);
        return 0;
    }
    let plan = match plan_from_json(j) {
        Ok(p) => p,
        Err(e) => {
            eprintln!("replay: {}", e);
            return 2;
        }
    };
    let dec = match decisions_from_json(j) {
        Ok(d) => d,
        Err(e) => {
            eprintln!("replay: {}", e);
            return 2;
        }
    };
    // --fresh: ignore the recorded decisions and draw new ones from the plan's sim_seed
    let dec = if args.flag("fresh") { None } else { Some(dec) };
    let (r, v) = run_plan(&plan, dec, watchdog, true);
    match v {
        Some(v) => {
            let exp_comp = j.get("expect").and_then(|e| e.get("component")).and_then(|c| c.as_str()).unwrap_or("");
            let exp_sim = j.get("expect").and_then(|e| e.get("digest_sim")).and_then(|c| c.as_str()).unwrap_or("");
            println!(
                "replayed: op_index={} op={} component={} (recorded {}) digest_sim={} (recorded {}) digest_ref={} exact_match={}",
                v.op_index,
                v.op.name(),
                v.component,
                exp_comp,
                v.sim,
                exp_sim,
                v.reference,
                v.component == exp_comp && v.sim == exp_sim
            );
            println!("VIOLATION property=C09 replay={}", path);
            1
        }
        None => {
            let _ = r;
            println!("REPLAY-NO-VIOLATION property=C09 replay={}", path);
            0
        }
    }
}
