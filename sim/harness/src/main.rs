//! `verif`: the deterministic-simulation harness for meshless_voro.
//!
//! Subcommands (all take `--key value` arguments):
//!   e1        C09 engine E1: simulated schedules (sim_rayon), a shard of runs
//!   e1-trace  print one line per run (decision hash, digests) for determinism diffs
//!   e3        C09 engine E3 worker: real rayon, natively; prints digests
//!   c20       C20: hash-order seam exploration + seeded oracles
//!   replay    re-execute a replay file; exit 1 + VIOLATION line if it reproduces

// (the surfaces of the two copies that run under a scheduler live in crates of their own, which the
// rustc wrapper instruments: generic library code is compiled where it is instantiated)
#[cfg(feature = "e1")]
pub use surf_sim::s_sim;
vcore::impl_surface!(s_seq, mv_seq);
pub use surf_real::s_real;

#[cfg(feature = "e1")]
mod c09;
mod c20;
#[cfg(feature = "e1")]
mod e1;
mod e3;

use std::collections::BTreeMap;

pub struct Args {
    pub cmd: String,
    pub pos: Vec<String>,
    pub kv: BTreeMap<String, String>,
}

impl Args {
    pub fn parse() -> Args {
        let mut it = std::env::args().skip(1);
        let cmd = it.next().unwrap_or_default();
        let mut pos = vec![];
        let mut kv = BTreeMap::new();
        let rest: Vec<String> = it.collect();
        let mut i = 0;
        while i < rest.len() {
            if let Some(k) = rest[i].strip_prefix("--") {
                if i + 1 < rest.len() && !rest[i + 1].starts_with("--") {
                    kv.insert(k.to_string(), rest[i + 1].clone());
                    i += 2;
                } else {
                    kv.insert(k.to_string(), "1".to_string());
                    i += 1;
                }
            } else {
                pos.push(rest[i].clone());
                i += 1;
            }
        }
        Args { cmd, pos, kv }
    }
    pub fn u64(&self, k: &str, d: u64) -> u64 {
        self.kv.get(k).and_then(|v| v.parse().ok()).unwrap_or(d)
    }
    pub fn f64(&self, k: &str, d: f64) -> f64 {
        self.kv.get(k).and_then(|v| v.parse().ok()).unwrap_or(d)
    }
    pub fn str(&self, k: &str, d: &str) -> String {
        self.kv.get(k).cloned().unwrap_or_else(|| d.to_string())
    }
    pub fn flag(&self, k: &str) -> bool {
        self.kv.contains_key(k)
    }
}

/// Exit codes: 0 held, 1 violation, 2 harness error, 3 blocked (inconclusive).
fn main() {
    // Panics of the library under test are outcomes, not noise: keep them quiet
    // unless asked.
    if std::env::var("VERIF_VERBOSE").is_err() {
        std::panic::set_hook(Box::new(|_| {}));
    }
    // The simulator owns the scheduling points inside cells.
    #[cfg(feature = "e1")]
    if std::env::var("VERIF_NO_SCHED_HOOK").is_err() {
        mv_sim::verif::set_sched_point(Some(sim_rayon::sim::sched_point));
    }

    // the sequential copy reports its hook passes: a deterministic measure of the work a reference costs
    mv_seq::verif::set_sched_point(Some(count_reference_work));

    // the seam registry's own atomics are plumbing, not scheduling points
    #[cfg(feature = "e1")]
    for a in mv_sim::verif::seam_addresses() {
        bbguard::ignore_atomic(a);
    }
    for a in mv_real::verif::seam_addresses() {
        bbguard::ignore_atomic(a);
    }

    let args = Args::parse();
    let code = match args.cmd.as_str() {
        #[cfg(feature = "e1")]
        "e1" => e1::cmd_e1(&args),
        #[cfg(feature = "e1")]
        "e1-trace" => e1::cmd_trace(&args),
        #[cfg(feature = "e1")]
        "refproc" => c09::cmd_refproc(),
        #[cfg(feature = "e1")]
        "e1-ref" => e1::cmd_ref(&args),
        #[cfg(feature = "e1")]
        "plan-info" => e1::cmd_plan_info(&args),
        "e3" => e3::cmd_e3(&args),
        "c20" => c20::cmd_c20(&args),
        "replay" => cmd_replay(&args),
        _ => {
            eprintln!("usage: verif <e1|e1-trace|e3|c20|replay> [--key value]...");
            2
        }
    };
    std::process::exit(code);
}

/// Hook passes of the sequential copy of the library (neighbour loops, clipping loops, heap pops of the
/// periodic neighbour iterator, exact predicates): work done by reference computations, in a unit that does
/// not depend on the machine or its load.
pub static REFERENCE_WORK: std::sync::atomic::AtomicU64 = std::sync::atomic::AtomicU64::new(0);

thread_local! {
    static THREAD_WORK: std::cell::Cell<u64> = const { std::cell::Cell::new(0) };
}

/// A reference that needs more hook passes than this (about a second of sequential work; ordinary runs need
/// 0.3 - 15 million) is abandoned, and the run it belongs to is not simulated: a few pathological inputs
/// (thousands of generators on the faces of a periodic box) cost a shard its whole time budget otherwise.
/// Counted per thread; every reference is computed on a thread of its own. Deterministic: a count, not a time.
pub const REFERENCE_WORK_BUDGET: u64 = 80_000_000;
pub const WORK_BUDGET_MSG: &str = "verif: reference work budget exceeded";

fn count_reference_work(_site: u32) {
    REFERENCE_WORK.fetch_add(1, std::sync::atomic::Ordering::Relaxed);
    let n = THREAD_WORK.with(|w| {
        let n = w.get() + 1;
        w.set(n);
        n
    });
    if n == REFERENCE_WORK_BUDGET + 1 {
        panic!("{}", WORK_BUDGET_MSG);
    }
}

/// Start counting afresh on this thread (for references computed on a long-lived thread).
pub fn reset_reference_work() {
    THREAD_WORK.with(|w| w.set(0));
}

pub fn over_budget(o: &vcore::Outcome) -> bool {
    matches!(o, vcore::Outcome::Panic(m) if m.starts_with(WORK_BUDGET_MSG))
}

pub fn write_replay(dir: &str, name: &str, j: &vcore::J) -> String {
    let _ = std::fs::create_dir_all(dir);
    let path = format!("{}/{}", dir, name);
    let _ = std::fs::write(&path, j.pretty());
    path
}

fn cmd_replay(args: &Args) -> i32 {
    let path = match args.pos.first() {
        Some(p) => p.clone(),
        None => {
            eprintln!("replay: missing file");
            return 2;
        }
    };
    let text = match std::fs::read_to_string(&path) {
        Ok(t) => t,
        Err(e) => {
            eprintln!("replay: cannot read {}: {}", path, e);
            return 2;
        }
    };
    let j = match vcore::J::parse(&text) {
        Ok(j) => j,
        Err(e) => {
            eprintln!("replay: bad json in {}: {}", path, e);
            return 2;
        }
    };
    let prop = j.get("property").and_then(|p| p.as_str()).unwrap_or("");
    let engine = j.get("engine").and_then(|p| p.as_str()).unwrap_or("");
    match (prop, engine) {
        #[cfg(feature = "e1")]
        ("C09", e) if e.starts_with("E1") => e1::replay(&j, &path, args),
        ("C09", e) if e.starts_with("E3") => e3::replay(&j, &path, args),
        ("C20", _) => c20::replay(&j, &path, args),
        _ => {
            eprintln!("replay: unknown property/engine {}/{}", prop, engine);
            2
        }
    }
}
