//! C09, engine E1: the library's parallel loops under the schedule-owning
//! rayon model. One *run* is one simulated process lifetime: a history of API
//! calls against persistent worker pools, compared bit-for-bit with the
//! sequential build (no rayon feature).

use crate::{s_seq, s_sim};
use sim_rayon::sim::{SchedMode, Sim, SimConfig, SplitMode, Stats};
use std::collections::BTreeMap;
use vcore::case::{gen_case, Case, GenLimits};
use vcore::digest::Outcome;
use vcore::json::J;
use vcore::rng::{mix, Rng};
use vcore::surface::{OpKind, ALL_OPS};

pub const POOL_SIZES: &[usize] = &[1, 2, 3, 4, 5, 7, 8, 16, 32, 64];
pub const SPLITS: &[SplitMode] = &[SplitMode::Adaptive, SplitMode::Random, SplitMode::PerItem, SplitMode::Whole];
pub const SCHEDS: &[SchedMode] = &[
    SchedMode::Seq,
    SchedMode::Rev,
    SchedMode::LeafRandom,
    SchedMode::Interleave,
    SchedMode::Pct,
    SchedMode::Stall,
];

pub fn split_name(s: SplitMode) -> &'static str {
    match s {
        SplitMode::Adaptive => "adaptive",
        SplitMode::Random => "random",
        SplitMode::PerItem => "per_item",
        SplitMode::Whole => "whole",
    }
}
pub fn sched_name(s: SchedMode) -> &'static str {
    match s {
        SchedMode::Seq => "seq",
        SchedMode::Rev => "rev",
        SchedMode::LeafRandom => "leaf_random",
        SchedMode::Interleave => "interleave",
        SchedMode::Pct => "pct",
        SchedMode::Stall => "stall",
    }
}
fn split_from(s: &str) -> Option<SplitMode> {
    SPLITS.iter().copied().find(|m| split_name(*m) == s)
}
fn sched_from(s: &str) -> Option<SchedMode> {
    SCHEDS.iter().copied().find(|m| sched_name(*m) == s)
}

#[derive(Clone, Debug, PartialEq)]
pub struct HistOp {
    pub op: OpKind,
    pub pool: usize,
    pub split: SplitMode,
    pub sched: SchedMode,
    pub hooks: bool,
}

#[derive(Clone, Debug)]
pub struct Plan {
    pub verif_seed: u64,
    pub run_index: u64,
    pub pool_sizes: Vec<usize>,
    pub mean_gap: u32,
    pub pct_depth: u32,
    pub sim_seed: u64,
    pub case: Case,
    pub history: Vec<HistOp>,
}

#[derive(Clone, Debug)]
pub struct Limits {
    pub max_n: usize,
    pub max_pool: usize,
    pub allow_hooks: bool,
}

impl Default for Limits {
    fn default() -> Self {
        Limits {
            max_n: 200,
            max_pool: 64,
            allow_hooks: true,
        }
    }
}

/// Everything about run `run_index` is a pure function of (seed, index, limits).
pub fn plan_run(verif_seed: u64, run_index: u64, lim: &Limits) -> Plan {
    let mut rng = Rng::new(mix(verif_seed, run_index, 0xC09));
    let case = gen_case(
        &mut rng,
        &GenLimits {
            max_n: lim.max_n,
            ..Default::default()
        },
    );
    // pools: small ones are cheap and already reach every ordering of few
    // leaves; big ones exercise deep splitting
    let sizes: Vec<usize> = POOL_SIZES.iter().copied().filter(|&k| k <= lim.max_pool).collect();
    let pick_pool = |rng: &mut Rng| -> usize {
        let c = rng.below(100);
        let idx = if c < 8 {
            0
        } else if c < 75 {
            1 + rng.below(4.min(sizes.len() as u64 - 1).max(1)) as usize
        } else if c < 93 {
            rng.below(sizes.len().min(7) as u64) as usize
        } else {
            rng.below(sizes.len() as u64) as usize
        };
        sizes[idx.min(sizes.len() - 1)]
    };
    let mut pool_sizes = vec![pick_pool(&mut rng)];
    if rng.chance(0.5) {
        let p = pick_pool(&mut rng);
        pool_sizes.push(p);
    }
    let n_ops = 2 + rng.below(5) as usize;
    let mut history: Vec<HistOp> = vec![];
    // swarm: a run favours one split / sched mode but mixes in others
    let fav_split = *rng.pick(SPLITS);
    let fav_sched = *rng.pick(&SCHEDS[1..]);
    for i in 0..n_ops {
        let op = if i > 0 && rng.chance(0.3) {
            // repeated op: same call twice in one process
            history[rng.below(i as u64) as usize].op
        } else {
            *rng.pick(ALL_OPS)
        };
        let split = if rng.chance(0.6) { fav_split } else { *rng.pick(SPLITS) };
        let sched = if rng.chance(0.6) { fav_sched } else { *rng.pick(SCHEDS) };
        history.push(HistOp {
            op,
            pool: rng.below(pool_sizes.len() as u64) as usize,
            split,
            sched,
            hooks: lim.allow_hooks && rng.chance(0.6),
        });
    }
    // guarantee at least one repeated op
    if history.iter().enumerate().all(|(i, a)| history[..i].iter().all(|b| b.op != a.op)) {
        let j = rng.below(history.len() as u64) as usize;
        let mut h = history[j].clone();
        h.pool = rng.below(pool_sizes.len() as u64) as usize;
        h.sched = *rng.pick(&SCHEDS[1..]);
        history.push(h);
    }
    Plan {
        verif_seed,
        run_index,
        pool_sizes,
        mean_gap: *rng.pick(&[1u32, 2, 4, 8, 32, 128]),
        pct_depth: 1 + rng.below(3) as u32,
        sim_seed: rng.next_u64(),
        case,
        history,
    }
}

pub struct RunResult {
    pub outcomes: Vec<Outcome>,
    pub decisions: Vec<u32>,
    /// Length of the decision log at the start of each history op.
    pub marks: Vec<usize>,
    pub stats: Stats,
    pub op_hashes: Vec<(u64, u64, u64)>,
}

/// Execute the history of `plan` under the simulator.
pub fn exec_sim(plan: &Plan, replay: Option<Vec<u32>>, watchdog_s: u64) -> RunResult {
    let cfg = SimConfig {
        pool_sizes: plan.pool_sizes.clone(),
        split: SplitMode::Adaptive,
        sched: SchedMode::Seq,
        preempt_hooks: false,
        mean_gap: plan.mean_gap,
        pct_depth: plan.pct_depth,
        watchdog_s,
    };
    let sim = Sim::new(cfg, plan.sim_seed, replay);
    sim.install();
    let mut outcomes = vec![];
    let mut marks = vec![];
    for h in &plan.history {
        marks.push(sim.decisions_len());
        sim.set_pool(h.pool.min(plan.pool_sizes.len() - 1));
        sim.set_modes(h.split, h.sched, h.hooks);
        outcomes.push(s_sim::run_op(&plan.case, h.op));
    }
    Sim::uninstall();
    let r = RunResult {
        outcomes,
        decisions: sim.decisions(),
        marks,
        stats: sim.stats(),
        op_hashes: sim.op_hashes(),
    };
    sim.shutdown();
    r
}

/// Reference outcomes (sequential build, no rayon), one per distinct op kind.
pub fn reference(case: &Case, history: &[HistOp]) -> BTreeMap<OpKind, Outcome> {
    let mut m = BTreeMap::new();
    for h in history {
        m.entry(h.op).or_insert_with(|| s_seq::run_op(case, h.op));
    }
    m
}

#[derive(Clone, Debug, PartialEq)]
pub struct Violation {
    pub op_index: usize,
    pub op: OpKind,
    pub component: String,
    pub sim: String,
    pub reference: String,
    /// "sim_vs_seq" or "seq_not_repeatable"
    pub class: String,
}

pub fn compare(plan: &Plan, outcomes: &[Outcome], refs: &BTreeMap<OpKind, Outcome>) -> Option<Violation> {
    for (i, (h, o)) in plan.history.iter().zip(outcomes).enumerate() {
        let r = &refs[&h.op];
        if let Some((component, a, b)) = o.first_diff(r) {
            return Some(Violation {
                op_index: i,
                op: h.op,
                component,
                sim: a,
                reference: b,
                class: "sim_vs_seq".into(),
            });
        }
    }
    None
}

/// Run one plan end to end. `check_ref_repeat`: also demand that the
/// sequential reference itself is repeatable inside this process.
pub fn run_plan(plan: &Plan, replay: Option<Vec<u32>>, watchdog_s: u64, check_ref_repeat: bool) -> (RunResult, Option<Violation>) {
    let refs = reference(&plan.case, &plan.history);
    if check_ref_repeat {
        let h0 = &plan.history[0];
        let again = s_seq::run_op(&plan.case, h0.op);
        if let Some((component, a, b)) = again.first_diff(&refs[&h0.op]) {
            let r = RunResult {
                outcomes: vec![],
                decisions: vec![],
                marks: vec![],
                stats: Stats::default(),
                op_hashes: vec![],
            };
            return (
                r,
                Some(Violation {
                    op_index: 0,
                    op: h0.op,
                    component,
                    sim: a,
                    reference: b,
                    class: "seq_not_repeatable".into(),
                }),
            );
        }
    }
    let r = exec_sim(plan, replay, watchdog_s);
    let v = compare(plan, &r.outcomes, &refs);
    (r, v)
}

// ---------------------------------------------------------------------------
// Replay files
// ---------------------------------------------------------------------------

fn rle(d: &[u32]) -> J {
    // sparse: [index, value] pairs of non-zero decisions plus total length
    let mut nz = vec![];
    for (i, v) in d.iter().enumerate() {
        if *v != 0 {
            nz.push(J::arr([J::u(i as u64), J::u(*v as u64)]));
        }
    }
    J::obj().set("len", J::u(d.len() as u64)).set("nonzero", J::Arr(nz))
}

fn unrle(j: &J) -> Result<Vec<u32>, String> {
    let len = j.get("len").and_then(|l| l.as_u64()).ok_or("decisions.len missing")? as usize;
    let mut d = vec![0u32; len];
    for p in j.get("nonzero").and_then(|n| n.as_arr()).ok_or("decisions.nonzero missing")? {
        let p = p.as_arr().ok_or("bad pair")?;
        let i = p[0].as_u64().ok_or("bad index")? as usize;
        let v = p[1].as_u64().ok_or("bad value")? as u32;
        if i < len {
            d[i] = v;
        }
    }
    Ok(d)
}

pub fn plan_to_json(plan: &Plan) -> J {
    J::obj()
        .set("verif_seed", J::s(&plan.verif_seed.to_string()))
        .set("run_index", J::u(plan.run_index))
        .set(
            "config",
            J::obj()
                .set("pool_sizes", J::arr(plan.pool_sizes.iter().map(|p| J::u(*p as u64))))
                .set("mean_gap", J::u(plan.mean_gap as u64))
                .set("pct_depth", J::u(plan.pct_depth as u64))
                .set("sim_seed", J::s(&plan.sim_seed.to_string())),
        )
        .set("case", plan.case.to_json())
        .set(
            "history",
            J::arr(plan.history.iter().map(|h| {
                J::obj()
                    .set("op", J::s(h.op.name()))
                    .set("pool", J::u(h.pool as u64))
                    .set("split", J::s(split_name(h.split)))
                    .set("sched", J::s(sched_name(h.sched)))
                    .set("hooks", J::Bool(h.hooks))
            })),
        )
}

pub fn plan_from_json(j: &J) -> Result<Plan, String> {
    let cfg = j.get("config").ok_or("config missing")?;
    let history = j
        .get("history")
        .and_then(|h| h.as_arr())
        .ok_or("history missing")?
        .iter()
        .map(|h| {
            Ok(HistOp {
                op: OpKind::from_name(h.get("op").and_then(|o| o.as_str()).ok_or("op missing")?).ok_or("unknown op")?,
                pool: h.get("pool").and_then(|p| p.as_u64()).unwrap_or(0) as usize,
                split: split_from(h.get("split").and_then(|o| o.as_str()).unwrap_or("adaptive")).ok_or("unknown split")?,
                sched: sched_from(h.get("sched").and_then(|o| o.as_str()).unwrap_or("seq")).ok_or("unknown sched")?,
                hooks: h.get("hooks").and_then(|b| b.as_bool()).unwrap_or(false),
            })
        })
        .collect::<Result<Vec<_>, String>>()?;
    Ok(Plan {
        verif_seed: j.get("verif_seed").and_then(|s| s.as_str()).and_then(|s| s.parse().ok()).unwrap_or(0),
        run_index: j.get("run_index").and_then(|s| s.as_u64()).unwrap_or(0),
        pool_sizes: cfg
            .get("pool_sizes")
            .and_then(|p| p.as_arr())
            .ok_or("pool_sizes missing")?
            .iter()
            .map(|p| p.as_u64().unwrap_or(1) as usize)
            .collect(),
        mean_gap: cfg.get("mean_gap").and_then(|s| s.as_u64()).unwrap_or(8) as u32,
        pct_depth: cfg.get("pct_depth").and_then(|s| s.as_u64()).unwrap_or(1) as u32,
        sim_seed: cfg.get("sim_seed").and_then(|s| s.as_str()).and_then(|s| s.parse().ok()).unwrap_or(0),
        case: Case::from_json(j.get("case").ok_or("case missing")?)?,
        history,
    })
}

pub fn replay_json(plan: &Plan, decisions: &[u32], v: &Violation, minimised: bool, notes: &[String]) -> J {
    plan_to_json(plan)
        .set("property", J::s("C09"))
        .set("engine", J::s("E1:sim_rayon"))
        .set("kind", J::s("single"))
        .set("minimised", J::Bool(minimised))
        .set("decisions", rle(decisions))
        .set(
            "expect",
            J::obj()
                .set("class", J::s(&v.class))
                .set("op_index", J::u(v.op_index as u64))
                .set("op", J::s(v.op.name()))
                .set("component", J::s(&v.component))
                .set("digest_sim", J::s(&v.sim))
                .set("digest_ref", J::s(&v.reference)),
        )
        .set("notes", J::arr(notes.iter().map(|n| J::s(n))))
}

pub fn decisions_from_json(j: &J) -> Result<Vec<u32>, String> {
    unrle(j.get("decisions").ok_or("decisions missing")?)
}

// ---------------------------------------------------------------------------
// Minimisation
// ---------------------------------------------------------------------------

fn same_class(a: &Violation, b: &Violation) -> bool {
    // "digest of some component of some op differs from the reference", same
    // class of failure; the op kind must stay the same, its position may move
    a.class == b.class && a.op == b.op && (a.component == b.component || a.component.split('.').next() == b.component.split('.').next())
}

pub struct Minimised {
    pub plan: Plan,
    pub decisions: Vec<u32>,
    pub violation: Violation,
    pub steps: Vec<String>,
    pub evaluations: u64,
}

/// Greedy shrinking; a candidate is accepted only if the same class of
/// violation persists. A candidate is first tried with the recorded decisions
/// (cut to fit) and, because a structural change makes them line up badly,
/// then with a few fresh decision streams.
pub fn minimise(plan: &Plan, decisions: &[u32], marks: &[usize], v: &Violation, watchdog_s: u64, budget: u64) -> Minimised {
    let mut best_plan = plan.clone();
    let mut best_dec = decisions.to_vec();
    let mut best_marks = marks.to_vec();
    let mut best_v = v.clone();
    let mut steps = vec![];
    let mut evals = 0u64;

    struct Found {
        plan: Plan,
        dec: Vec<u32>,
        marks: Vec<usize>,
        v: Violation,
    }
    let try_cand = |p: &Plan, d: &[u32], fresh: u64, evals: &mut u64| -> Option<Found> {
        for attempt in 0..=fresh {
            if *evals >= budget {
                return None;
            }
            *evals += 1;
            let mut p = p.clone();
            let replay = if attempt == 0 {
                Some(d.to_vec())
            } else {
                p.sim_seed = mix(p.sim_seed, attempt, 0x5EED);
                None
            };
            let (r, nv) = run_plan(&p, replay, watchdog_s, false);
            if let Some(nv) = nv {
                if same_class(&nv, v) {
                    return Some(Found {
                        plan: p,
                        dec: r.decisions,
                        marks: r.marks,
                        v: nv,
                    });
                }
            }
        }
        None
    };
    macro_rules! accept {
        ($f:expr, $msg:expr) => {{
            let f: Found = $f;
            steps.push($msg);
            best_plan = f.plan;
            best_dec = f.dec;
            best_marks = f.marks;
            best_v = f.v;
        }};
    }

    // 1. drop ops from the history together with their decision segments;
    //    first try to keep the failing op alone
    if best_plan.history.len() > 1 && best_v.op_index < best_plan.history.len() && best_marks.len() == best_plan.history.len() {
        let i = best_v.op_index;
        let mut p = best_plan.clone();
        p.history = vec![best_plan.history[i].clone()];
        let lo = best_marks[i];
        let hi = best_marks.get(i + 1).copied().unwrap_or(best_dec.len());
        let d = best_dec[lo..hi].to_vec();
        if let Some(f) = try_cand(&p, &d, 3, &mut evals) {
            accept!(f, format!("kept only op {}", i));
        }
    }
    let mut i = 0;
    while i < best_plan.history.len() && best_plan.history.len() > 1 {
        let mut p = best_plan.clone();
        p.history.remove(i);
        let mut d = best_dec.clone();
        if best_marks.len() == best_plan.history.len() {
            let lo = best_marks[i];
            let hi = best_marks.get(i + 1).copied().unwrap_or(best_dec.len());
            d.drain(lo..hi);
        }
        if let Some(f) = try_cand(&p, &d, 1, &mut evals) {
            accept!(f, format!("dropped op {}", i));
        } else {
            i += 1;
        }
    }

    // 1b. prefer simpler, more aggressive modes (they reproduce more reliably
    //     on smaller inputs than e.g. PCT with far-away change points)
    for i in 0..best_plan.history.len() {
        for (sp, sc) in [
            (SplitMode::PerItem, SchedMode::Rev),
            (SplitMode::PerItem, SchedMode::LeafRandom),
            (SplitMode::PerItem, SchedMode::Interleave),
            (SplitMode::Adaptive, SchedMode::Interleave),
            (SplitMode::Adaptive, SchedMode::LeafRandom),
        ] {
            if best_plan.history[i].split == sp && best_plan.history[i].sched == sc {
                break;
            }
            let mut p = best_plan.clone();
            p.history[i].split = sp;
            p.history[i].sched = sc;
            if sc == SchedMode::Interleave {
                p.mean_gap = 1;
            }
            if let Some(f) = try_cand(&p, &best_dec, 2, &mut evals) {
                accept!(f, format!("op {}: modes -> {}/{}", i, split_name(sp), sched_name(sc)));
                break;
            }
        }
    }

    // 2. drop generators (big chunks first)
    let mut chunk = (best_plan.case.gens.len() / 2).max(1);
    loop {
        let mut start = 0;
        let mut progressed = false;
        while start < best_plan.case.gens.len() && best_plan.case.gens.len() > 1 && evals < budget {
            let end = (start + chunk).min(best_plan.case.gens.len());
            if end - start >= best_plan.case.gens.len() {
                break;
            }
            let mut p = best_plan.clone();
            p.case.gens.drain(start..end);
            if let Some(m) = &mut p.case.mask {
                m.drain(start..end);
            }
            if let Some(f) = try_cand(&p, &best_dec, 3, &mut evals) {
                accept!(f, format!("dropped generators {}..{}", start, end));
                progressed = true;
            } else {
                start += chunk;
            }
        }
        if evals >= budget || (chunk == 1 && !progressed) {
            break;
        }
        if chunk > 1 {
            chunk /= 2;
        }
    }

    // 3. shrink pools
    for pi in 0..best_plan.pool_sizes.len() {
        for &k in POOL_SIZES {
            if k >= best_plan.pool_sizes[pi] {
                break;
            }
            let mut p = best_plan.clone();
            p.pool_sizes[pi] = k;
            if let Some(f) = try_cand(&p, &best_dec, 2, &mut evals) {
                accept!(f, format!("pool {} -> {} workers", pi, k));
                break;
            }
        }
    }

    // 4. turn hook preemption off
    for i in 0..best_plan.history.len() {
        if best_plan.history[i].hooks {
            let mut p = best_plan.clone();
            p.history[i].hooks = false;
            if let Some(f) = try_cand(&p, &best_dec, 1, &mut evals) {
                accept!(f, format!("op {}: hooks off", i));
            }
        }
    }

    // 5. zero decision chunks (towards the sequential schedule)
    let mut chunk = (best_dec.len() / 2).max(1);
    while !best_dec.is_empty() && evals < budget {
        let mut start = 0;
        while start < best_dec.len() && evals < budget {
            let end = (start + chunk).min(best_dec.len());
            if best_dec[start..end].iter().any(|x| *x != 0) {
                let mut d = best_dec.clone();
                for x in &mut d[start..end] {
                    *x = 0;
                }
                if let Some(f) = try_cand(&best_plan, &d, 0, &mut evals) {
                    best_dec = f.dec;
                    best_marks = f.marks;
                    best_v = f.v;
                }
            }
            start = end;
        }
        if chunk == 1 {
            break;
        }
        chunk /= 2;
    }
    steps.push(format!(
        "decisions: {} total, {} non-zero",
        best_dec.len(),
        best_dec.iter().filter(|x| **x != 0).count()
    ));
    let _ = &best_marks;

    Minimised {
        plan: best_plan,
        decisions: best_dec,
        violation: best_v,
        steps,
        evaluations: evals,
    }
}
