//! C09, engine E1: the library's parallel loops under the schedule-owning
//! rayon model. One *run* is one simulated process lifetime: a history of API
//! calls against persistent worker pools, compared bit-for-bit with the
//! sequential build (no rayon feature).

use crate::{s_seq, s_sim};
use sim_rayon::sim::{SchedMode, Sim, SimConfig, SplitMode, Stats};
use std::collections::BTreeMap;
use vcore::case::{derive_variant, gen_case, Case, GenLimits};
use vcore::digest::Outcome;
use vcore::json::J;
use vcore::rng::{mix, Rng};
use vcore::surface::{OpKind, ALL_OPS};

pub const POOL_SIZES: &[usize] = &[1, 2, 3, 4, 5, 7, 8, 16, 32, 64];
pub const SPLITS: &[SplitMode] = &[SplitMode::Adaptive, SplitMode::Random, SplitMode::PerItem, SplitMode::Whole];
pub const SCHEDS: &[SchedMode] = &[
    SchedMode::Seq,
    SchedMode::Rev,
    SchedMode::LeafRandom,
    SchedMode::Interleave,
    SchedMode::Pct,
    SchedMode::Stall,
];

pub fn split_name(s: SplitMode) -> &'static str {
    match s {
        SplitMode::Adaptive => "adaptive",
        SplitMode::Random => "random",
        SplitMode::PerItem => "per_item",
        SplitMode::Whole => "whole",
    }
}
pub fn sched_name(s: SchedMode) -> &'static str {
    match s {
        SchedMode::Seq => "seq",
        SchedMode::Rev => "rev",
        SchedMode::LeafRandom => "leaf_random",
        SchedMode::Interleave => "interleave",
        SchedMode::Pct => "pct",
        SchedMode::Stall => "stall",
    }
}
fn split_from(s: &str) -> Option<SplitMode> {
    SPLITS.iter().copied().find(|m| split_name(*m) == s)
}
fn sched_from(s: &str) -> Option<SchedMode> {
    SCHEDS.iter().copied().find(|m| sched_name(*m) == s)
}

#[derive(Clone, Debug, PartialEq)]
pub struct HistOp {
    pub op: OpKind,
    pub pool: usize,
    pub split: SplitMode,
    pub sched: SchedMode,
    pub hooks: bool,
    /// Preempt at the basic-block guards of the instrumented library (any block, also in code
    /// without hooks) and at rarely executed sites.
    pub bb: bool,
    /// Fault: the user-supplied integral panics for cell `.0 % n` at its call number
    /// `1 + .1 % 12`, the caller catches it (ops that evaluate user integrals, without a
    /// concurrent partner, only). What matters is what the *following* calls return.
    pub fault: Option<(u32, u32)>,
    /// Which of the plan's inputs (`Plan::cases`) the call is made with.
    pub case: usize,
    /// A second call running concurrently on the same pool (both are started
    /// from one `join`, as when a caller parallelises over several tessellations).
    pub with: Option<(OpKind, usize)>,
}

#[derive(Clone, Debug)]
pub struct Plan {
    pub verif_seed: u64,
    pub run_index: u64,
    pub pool_sizes: Vec<usize>,
    pub mean_gap: u32,
    pub pct_depth: u32,
    pub sim_seed: u64,
    /// `cases[0]` is the base input; the others are related inputs derived from
    /// it (another mask, nudged generators, ...), see `vcore::case::derive_variant`.
    pub cases: Vec<Case>,
    pub history: Vec<HistOp>,
    /// Also compare the in-process sequential references with references
    /// computed in a pristine helper process (state leaking through statics).
    pub pristine: bool,
    /// Number of CPUs the simulated process sees (`available_parallelism`; 0 = the real machine).
    pub cpus: usize,
}

/// Machine sizes a run may be given (the machine-size seam, `sim_rayon::sys::sched_getaffinity`).
pub const CPU_COUNTS: &[usize] = &[1, 2, 3, 4, 6, 8, 12, 16, 24, 32, 48, 64, 96, 128, 256];

#[derive(Clone, Debug)]
pub struct Limits {
    pub max_n: usize,
    pub max_pool: usize,
    pub allow_hooks: bool,
}

impl Default for Limits {
    fn default() -> Self {
        Limits {
            max_n: 200,
            max_pool: 64,
            allow_hooks: true,
        }
    }
}

/// Everything about run `run_index` is a pure function of (seed, index, limits).
pub fn plan_run(verif_seed: u64, run_index: u64, lim: &Limits) -> Plan {
    let mut rng = Rng::new(mix(verif_seed, run_index, 0xC09));
    // later additions draw from a stream of their own, so that the rest of a plan is what it was
    let mut rng_bb = Rng::new(mix(verif_seed, run_index, 0xBB09));
    let fav_bb = rng_bb.chance(0.5);
    // a few runs are large: thresholds on the number of cells (block sizes,
    // "small input" shortcuts) are invisible below them
    let big = lim.max_n >= 200 && rng.chance(0.025);
    // and some are of medium size with all kinds of preemption on: work queues and block sizes of a
    // changed tree typically start to matter at a few hundred cells (e.g. 64 cells x (workers + 2))
    // development knob (never set by the checks): VERIF_DEV_FOCUS=<op name> makes every run a
    // medium-size one whose ops are all of that kind, to measure a catch rate per run
    let focus: Option<OpKind> = std::env::var("VERIF_DEV_FOCUS").ok().and_then(|s| OpKind::from_name(&s));
    let medium = !big && lim.max_n >= 200 && (rng_bb.chance(0.07) || focus.is_some());
    // large 1D / 2D inputs are cheap (a cell costs microseconds) and thresholds of a changed tree ("from 1024
    // generators on", chunk lengths derived from n and the pool width) are only reachable cheaply there
    let lowdim = !big && !medium && lim.max_n >= 200 && rng_bb.chance(0.04);
    let glim = if lowdim {
        let n = 1024 + rng_bb.below(5000) as usize;
        GenLimits {
            max_n: n,
            min_n: n * 3 / 4,
            max_n_3d: 450,
            dim_weights: [1, 1, 0],
        }
    } else if medium {
        let n = 200 + rng_bb.below(700) as usize;
        GenLimits {
            max_n: n,
            min_n: n * 3 / 4,
            max_n_3d: 450,
            dim_weights: [2, 5, 3],
        }
    } else if big {
        let n = 260 + rng.below(2800) as usize;
        GenLimits {
            max_n: n,
            min_n: n * 3 / 4,
            // (half of the large 3D inputs are really large: thresholds like "32 cells per worker of a wide pool")
            max_n_3d: if rng_bb.chance(0.5) { 2600 } else { 1200 },
            ..Default::default()
        }
    } else {
        GenLimits {
            max_n: lim.max_n,
            ..Default::default()
        }
    };
    let mut case = gen_case(&mut rng, &glim);
    if big {
        case.family = format!("big:{}", case.family);
    }
    if medium {
        case.family = format!("medium:{}", case.family);
    }
    if lowdim {
        case.family = format!("lowdim:{}", case.family);
    }
    // pools: small ones are cheap and already reach every ordering of few
    // leaves; big ones exercise deep splitting
    let sizes: Vec<usize> = POOL_SIZES.iter().copied().filter(|&k| k <= lim.max_pool).collect();
    let pick_pool = |rng: &mut Rng| -> usize {
        let c = rng.below(100);
        let idx = if c < 8 {
            0
        } else if c < 75 {
            1 + rng.below(4.min(sizes.len() as u64 - 1).max(1)) as usize
        } else if c < 93 {
            rng.below(sizes.len().min(7) as u64) as usize
        } else {
            rng.below(sizes.len() as u64) as usize
        };
        sizes[idx.min(sizes.len() - 1)]
    };
    let mut pool_sizes = vec![pick_pool(&mut rng)];
    if rng.chance(0.5) {
        let p = pick_pool(&mut rng);
        pool_sizes.push(p);
    }
    // Thresholds of a changed tree are typically joint ones - "this many cells per worker of a pool at least
    // that wide" - so large inputs have to meet wide pools often, not with the product of two small
    // probabilities: half of the large and a third of the medium-size runs get a wide first pool.
    if (big && rng_bb.chance(0.5)) || (medium && rng_bb.chance(0.33)) || (lowdim && rng_bb.chance(0.6)) {
        let wide: Vec<usize> = sizes.iter().copied().filter(|&k| k >= 16).collect();
        if !wide.is_empty() {
            pool_sizes[0] = *rng_bb.pick(&wide);
        }
    }
    // related inputs for multi-call histories
    let nvar = match rng.below(100) {
        0..=44 => 0,
        45..=79 => 1,
        _ => 2,
    };
    let mut cases = vec![case];
    for _ in 0..nvar {
        let b = rng.below(cases.len() as u64) as usize;
        let v = derive_variant(&mut rng, &cases[b]);
        cases.push(v);
    }
    // A caller's mistake as a fault of the history (8 % of the ordinary-size runs): one more input, derived from
    // one of the others, that the library rejects by panicking - duplicate generators, a generator outside the
    // box, a mask that is too short. The caller catches the failure and goes on; the later, valid calls of the
    // same process are what is checked (state left behind by a call that unwound).
    {
        let mut ri = Rng::new(mix(verif_seed, run_index, 0x1BAD));
        if !big && !medium && !lowdim && ri.chance(0.08) {
            let b = ri.below(cases.len() as u64) as usize;
            let v = vcore::case::derive_invalid(&mut ri, &cases[b]);
            cases.push(v);
        }
    }
    let ncase = cases.len() as u64;
    let n_ops = if big {
        2
    } else if medium || lowdim {
        2 + rng.below(2) as usize
    } else {
        2 + rng.below(5) as usize
    };
    let mut history: Vec<HistOp> = vec![];
    // swarm: a run favours one split / sched mode but mixes in others
    let fav_split = *rng.pick(SPLITS);
    let fav_sched = *rng.pick(&SCHEDS[1..]);
    for i in 0..n_ops {
        let (op, case) = if i > 0 && rng.chance(0.3) {
            // repeated op: same call twice in one process
            let h = &history[rng.below(i as u64) as usize];
            (h.op, h.case)
        } else {
            (*rng.pick(ALL_OPS), rng.below(ncase) as usize)
        };
        let op = focus.unwrap_or(op);
        // (large runs have two or three ops; the plain build is the entry point most likely to carry a size threshold)
        let op = if big && i == 0 && rng_bb.chance(0.4) { OpKind::Build } else { op };
        let with = if rng.chance(0.12) { Some((*rng.pick(ALL_OPS), rng.below(ncase) as usize)) } else { None };
        let split = if rng.chance(0.6) { fav_split } else { *rng.pick(SPLITS) };
        let sched = if rng.chance(0.6) { fav_sched } else { *rng.pick(SCHEDS) };
        history.push(HistOp {
            op,
            pool: rng.below(pool_sizes.len() as u64) as usize,
            split,
            sched,
            hooks: lim.allow_hooks && rng.chance(0.6),
            bb: lim.allow_hooks && rng_bb.chance(if big || lowdim { 0.2 } else if fav_bb || medium { 0.8 } else { 0.15 }),
            fault: if rng_bb.chance(0.07) { Some((rng_bb.below(1 << 20) as u32, rng_bb.below(12) as u32)) } else { None },
            case,
            with,
        });
    }
    // guarantee at least one repeated call (same op on the same input)
    if history.iter().enumerate().all(|(i, a)| history[..i].iter().all(|b| b.op != a.op || b.case != a.case)) {
        let j = rng.below(history.len() as u64) as usize;
        let mut h = history[j].clone();
        h.pool = rng.below(pool_sizes.len() as u64) as usize;
        h.sched = *rng.pick(&SCHEDS[1..]);
        history.push(h);
    }
    Plan {
        verif_seed,
        run_index,
        pool_sizes,
        mean_gap: *rng.pick(&[1u32, 2, 4, 8, 32, 128]),
        pct_depth: 1 + rng.below(3) as u32,
        sim_seed: rng.next_u64(),
        pristine: rng.chance(if nvar > 0 { 0.15 } else { 0.04 }),
        cases,
        history,
        // a stream of its own, so that the rest of a plan is what it was before this existed
        cpus: {
            let mut r = Rng::new(mix(verif_seed, run_index, 0xC9C9));
            if r.chance(0.25) {
                0
            } else {
                *r.pick(CPU_COUNTS)
            }
        },
    }
}

pub struct RunResult {
    /// Outcome of every history op, and of its concurrent partner if it has one.
    pub outcomes: Vec<(Outcome, Option<Outcome>)>,
    pub decisions: Vec<u32>,
    /// Length of the decision log at the start of each history op.
    pub marks: Vec<usize>,
    pub stats: Stats,
    pub op_hashes: Vec<(u64, u64, u64)>,
    pub pristine_checked: u64,
}

/// Run `f` on an OS thread of its own (clean `thread_local!` state, own stack).
pub fn fresh_thread<T: Send>(f: impl FnOnce() -> T + Send) -> T {
    std::thread::scope(|s| {
        std::thread::Builder::new()
            .name("verif-fresh".into())
            .stack_size(64 << 20)
            .spawn_scoped(s, f)
            .expect("spawn thread")
            .join()
            .expect("fresh thread panicked")
    })
}

/// Execute the history of `plan` under the simulator. The simulated process'
/// "main thread" (the driver) is a fresh OS thread, so nothing survives from
/// earlier runs of this harness process except `static`s.
pub fn exec_sim(plan: &Plan, replay: Option<Vec<u32>>, watchdog_s: u64) -> RunResult {
    fresh_thread(move || exec_sim_inner(plan, replay, watchdog_s))
}

fn exec_sim_inner(plan: &Plan, replay: Option<Vec<u32>>, watchdog_s: u64) -> RunResult {
    let cfg = SimConfig {
        pool_sizes: plan.pool_sizes.clone(),
        split: SplitMode::Adaptive,
        sched: SchedMode::Seq,
        preempt_hooks: false,
        preempt_bb: false,
        mean_gap: plan.mean_gap,
        pct_depth: plan.pct_depth,
        watchdog_s,
    };
    let sim = Sim::new(cfg, plan.sim_seed, replay);
    sim_rayon::sys::set_sim_cpus(plan.cpus);
    sim.install();
    let mut outcomes = vec![];
    let mut marks = vec![];
    let last = plan.cases.len() - 1;
    for h in &plan.history {
        marks.push(sim.decisions_len());
        sim.set_pool(h.pool.min(plan.pool_sizes.len() - 1));
        sim.set_modes(h.split, h.sched, h.hooks);
        sim.set_preempt_bb(h.bb);
        let case = &plan.cases[h.case.min(last)];
        match h.with {
            None => outcomes.push((s_sim::run_op_f(case, h.op, fault_of(plan, h)), None)),
            Some((op2, c2)) => {
                let case2 = &plan.cases[c2.min(last)];
                let (a, b) = sim_rayon::join(|| s_sim::run_op(case, h.op), || s_sim::run_op(case2, op2));
                outcomes.push((a, Some(b)));
            }
        }
    }
    Sim::uninstall();
    sim_rayon::sys::set_sim_cpus(0);
    let r = RunResult {
        outcomes,
        decisions: sim.decisions(),
        marks,
        stats: sim.stats(),
        op_hashes: sim.op_hashes(),
        pristine_checked: 0,
    };
    sim.shutdown();
    r
}

pub type Fault = Option<(usize, usize)>;
pub type RefKey = (usize, OpKind, Fault);

/// The fault of a history op as the library sees it (cell index, call number), if it applies.
pub fn fault_of(plan: &Plan, h: &HistOp) -> Fault {
    let last = plan.cases.len() - 1;
    let n = plan.cases[h.case.min(last)].n().max(1);
    match (h.fault, h.with, h.op) {
        (Some((c, k)), None, OpKind::CellIntegrals | OpKind::FaceIntegrals | OpKind::FaceIntegralsSym | OpKind::WithFaces) => {
            Some((c as usize % n, 1 + k as usize % 12))
        }
        _ => None,
    }
}
pub type Refs = BTreeMap<RefKey, Outcome>;

/// The distinct (input, op) pairs of a history, in order of first use.
pub fn ref_keys(plan: &Plan) -> Vec<RefKey> {
    let last = plan.cases.len() - 1;
    let mut v: Vec<RefKey> = vec![];
    for h in &plan.history {
        let k = (h.case.min(last), h.op, fault_of(plan, h));
        if !v.contains(&k) {
            v.push(k);
        }
        if let Some((op2, c2)) = h.with {
            let k = (c2.min(last), op2, None);
            if !v.contains(&k) {
                v.push(k);
            }
        }
    }
    v
}

/// Reference outcomes (sequential build, no rayon), each computed on a fresh
/// OS thread.
pub fn reference(plan: &Plan) -> Refs {
    let mut m = BTreeMap::new();
    for k in ref_keys(plan) {
        let case = &plan.cases[k.0];
        m.insert(k, fresh_thread(|| s_seq::run_op_f(case, k.1, k.2)));
    }
    m
}

/// The same references computed by a pristine helper process (`verif refproc`):
/// no earlier call has touched any `static` there.
pub fn pristine_reference(plan: &Plan) -> Result<BTreeMap<RefKey, String>, String> {
    use std::io::Write;
    use std::process::{Command, Stdio};
    // (faulted calls are not part of the cross-process comparison)
    let keys: Vec<RefKey> = ref_keys(plan).into_iter().filter(|k| k.2.is_none()).collect();
    let req = J::obj()
        .set("cases", J::arr(plan.cases.iter().map(|c| c.to_json())))
        .set(
            "reqs",
            J::arr(keys.iter().map(|(c, op, _)| J::obj().set("case", J::u(*c as u64)).set("op", J::s(op.name())))),
        );
    let exe = std::env::current_exe().map_err(|e| e.to_string())?;
    let mut child = Command::new(exe)
        .arg("refproc")
        .stdin(Stdio::piped())
        .stdout(Stdio::piped())
        .stderr(Stdio::null())
        .spawn()
        .map_err(|e| e.to_string())?;
    child.stdin.take().unwrap().write_all(req.pretty().as_bytes()).map_err(|e| e.to_string())?;
    let out = child.wait_with_output().map_err(|e| e.to_string())?;
    let text = String::from_utf8_lossy(&out.stdout);
    let mut m = BTreeMap::new();
    for line in text.lines() {
        if let Some(rest) = line.strip_prefix("REF ") {
            let mut it = rest.splitn(3, ' ');
            let c: usize = it.next().and_then(|x| x.parse().ok()).ok_or("bad REF line")?;
            let op = it.next().and_then(OpKind::from_name).ok_or("bad REF op")?;
            m.insert((c, op, None), it.next().unwrap_or("").to_string());
        }
    }
    if m.len() != keys.len() {
        return Err(format!("helper process returned {} of {} references (status {:?})", m.len(), keys.len(), out.status.code()));
    }
    Ok(m)
}

/// `verif refproc`: read {cases, reqs} from stdin, print one `REF` line per request.
pub fn cmd_refproc() -> i32 {
    use std::io::Read;
    let mut text = String::new();
    if std::io::stdin().read_to_string(&mut text).is_err() {
        return 2;
    }
    let j = match J::parse(&text) {
        Ok(j) => j,
        Err(_) => return 2,
    };
    let cases: Vec<Case> = match j.get("cases").and_then(|c| c.as_arr()) {
        Some(a) => match a.iter().map(Case::from_json).collect::<Result<Vec<_>, _>>() {
            Ok(c) => c,
            Err(_) => return 2,
        },
        None => return 2,
    };
    for r in j.get("reqs").and_then(|r| r.as_arr()).unwrap_or(&[]) {
        let c = r.get("case").and_then(|c| c.as_u64()).unwrap_or(0) as usize;
        let op = match r.get("op").and_then(|o| o.as_str()).and_then(OpKind::from_name) {
            Some(o) => o,
            None => return 2,
        };
        if c >= cases.len() {
            return 2;
        }
        let o = fresh_thread(|| s_seq::run_op(&cases[c], op));
        println!("REF {} {} {}", c, op.name(), o.to_line());
    }
    0
}

#[derive(Clone, Debug, PartialEq)]
pub struct Violation {
    pub op_index: usize,
    pub op: OpKind,
    pub component: String,
    pub sim: String,
    pub reference: String,
    /// "sim_vs_seq", "seq_not_repeatable" or "seq_depends_on_process_history"
    pub class: String,
}

pub fn compare(plan: &Plan, outcomes: &[(Outcome, Option<Outcome>)], refs: &Refs) -> Option<Violation> {
    let last = plan.cases.len() - 1;
    for (i, (h, (o, o2))) in plan.history.iter().zip(outcomes).enumerate() {
        let r = &refs[&(h.case.min(last), h.op, fault_of(plan, h))];
        if let Some((component, a, b)) = o.first_diff(r) {
            return Some(Violation {
                op_index: i,
                op: h.op,
                component,
                sim: a,
                reference: b,
                class: "sim_vs_seq".into(),
            });
        }
        if let (Some((op2, c2)), Some(o2)) = (h.with, o2) {
            let r = &refs[&(c2.min(last), op2, None)];
            if let Some((component, a, b)) = o2.first_diff(r) {
                return Some(Violation {
                    op_index: i,
                    op: op2,
                    component: format!("concurrent:{}", component),
                    sim: a,
                    reference: b,
                    class: "sim_vs_seq".into(),
                });
            }
        }
    }
    None
}

fn empty_result() -> RunResult {
    RunResult {
        outcomes: vec![],
        decisions: vec![],
        marks: vec![],
        stats: Stats::default(),
        op_hashes: vec![],
        pristine_checked: 0,
    }
}

/// Run one plan end to end. `check_ref_repeat`: also demand that the
/// sequential reference itself is repeatable inside this process.
pub static T_REF: std::sync::atomic::AtomicU64 = std::sync::atomic::AtomicU64::new(0);
pub static T_PRISTINE: std::sync::atomic::AtomicU64 = std::sync::atomic::AtomicU64::new(0);
pub static T_SIM: std::sync::atomic::AtomicU64 = std::sync::atomic::AtomicU64::new(0);

/// Runs not simulated because the sequential build of a large input panics on its own (see `run_plan`).
pub static SKIPPED_LARGE_SEQ_PANIC: std::sync::atomic::AtomicU64 = std::sync::atomic::AtomicU64::new(0);
/// Runs not simulated because a reference exceeded the work budget.
pub static SKIPPED_TOO_EXPENSIVE: std::sync::atomic::AtomicU64 = std::sync::atomic::AtomicU64::new(0);

/// Above this many generators an input whose sequential build panics by itself is not simulated.
pub const LARGE_N: usize = 200;

pub fn run_plan(plan: &Plan, replay: Option<Vec<u32>>, watchdog_s: u64, check_ref_repeat: bool) -> (RunResult, Option<Violation>) {
    let t_ref = std::time::Instant::now();
    let refs = reference(plan);
    T_REF.fetch_add(t_ref.elapsed().as_micros() as u64, std::sync::atomic::Ordering::Relaxed);
    let last = plan.cases.len() - 1;
    // The sequential loop stops at the first cell that panics; a parallel loop goes on with all the
    // other cells before the panic reaches the caller. On an input the library cannot handle (a panic
    // nobody injected; outside C09, both sides panic) the cost of the parallel call is therefore not
    // bounded by the cost of the reference, and for a large degenerate input (exact predicates on
    // ~1000 co-spherical generators) it is CPU-hours, which a time limit would then read as a hang.
    // Such runs are not simulated (counted); small inputs still are.
    if refs.values().any(crate::over_budget) {
        // a reference that was abandoned because it needs too much work (see `REFERENCE_WORK_BUDGET`)
        SKIPPED_TOO_EXPENSIVE.fetch_add(1, std::sync::atomic::Ordering::Relaxed);
        return (empty_result(), None);
    }
    if refs.iter().any(|(k, o)| k.2.is_none() && plan.cases[k.0].gens.len() > LARGE_N && matches!(o, Outcome::Panic(_))) {
        SKIPPED_LARGE_SEQ_PANIC.fetch_add(1, std::sync::atomic::Ordering::Relaxed);
        return (empty_result(), None);
    }
    let first_use = |k: &RefKey| -> usize {
        plan.history
            .iter()
            .position(|h| (h.case.min(last), h.op, fault_of(plan, h)) == *k || h.with.map_or(false, |(o, c)| (c.min(last), o, None) == *k))
            .unwrap_or(0)
    };
    if check_ref_repeat {
        let h0 = &plan.history[0];
        let k = (h0.case.min(last), h0.op, fault_of(plan, h0));
        crate::reset_reference_work();
        let again = s_seq::run_op_f(&plan.cases[k.0], h0.op, k.2);
        if let Some((component, a, b)) = again.first_diff(&refs[&k]) {
            return (
                empty_result(),
                Some(Violation {
                    op_index: 0,
                    op: h0.op,
                    component,
                    sim: a,
                    reference: b,
                    class: "seq_not_repeatable".into(),
                }),
            );
        }
    }
    let mut pristine_checked = 0;
    if plan.pristine {
        let t_p = std::time::Instant::now();
        let pr = pristine_reference(plan);
        T_PRISTINE.fetch_add(t_p.elapsed().as_micros() as u64, std::sync::atomic::Ordering::Relaxed);
        match pr {
            Ok(p) => {
                for (k, line) in &p {
                    pristine_checked += 1;
                    if refs[k].to_line() != *line {
                        let (component, a, b) = Outcome::from_line(line)
                            .and_then(|po| refs[k].first_diff(&po))
                            .unwrap_or(("outcome".into(), refs[k].short(), "differs".into()));
                        return (
                            empty_result(),
                            Some(Violation {
                                op_index: first_use(k),
                                op: k.1,
                                component,
                                sim: a,
                                reference: b,
                                class: "seq_depends_on_process_history".into(),
                            }),
                        );
                    }
                }
            }
            Err(e) => {
                eprintln!("HARNESS: pristine reference unavailable: {}", e);
                std::process::exit(2);
            }
        }
    }
    let t_s = std::time::Instant::now();
    let mut r = exec_sim(plan, replay, watchdog_s);
    T_SIM.fetch_add(t_s.elapsed().as_micros() as u64, std::sync::atomic::Ordering::Relaxed);
    r.pristine_checked = pristine_checked;
    let v = compare(plan, &r.outcomes, &refs);
    (r, v)
}

// ---------------------------------------------------------------------------
// Replay files
// ---------------------------------------------------------------------------

fn rle(d: &[u32]) -> J {
    // sparse: [index, value] pairs of non-zero decisions plus total length
    let mut nz = vec![];
    for (i, v) in d.iter().enumerate() {
        if *v != 0 {
            nz.push(J::arr([J::u(i as u64), J::u(*v as u64)]));
        }
    }
    J::obj().set("len", J::u(d.len() as u64)).set("nonzero", J::Arr(nz))
}

fn unrle(j: &J) -> Result<Vec<u32>, String> {
    let len = j.get("len").and_then(|l| l.as_u64()).ok_or("decisions.len missing")? as usize;
    let mut d = vec![0u32; len];
    for p in j.get("nonzero").and_then(|n| n.as_arr()).ok_or("decisions.nonzero missing")? {
        let p = p.as_arr().ok_or("bad pair")?;
        let i = p[0].as_u64().ok_or("bad index")? as usize;
        let v = p[1].as_u64().ok_or("bad value")? as u32;
        if i < len {
            d[i] = v;
        }
    }
    Ok(d)
}

pub fn plan_to_json(plan: &Plan) -> J {
    J::obj()
        .set("verif_seed", J::s(&plan.verif_seed.to_string()))
        .set("run_index", J::u(plan.run_index))
        .set(
            "config",
            J::obj()
                .set("pool_sizes", J::arr(plan.pool_sizes.iter().map(|p| J::u(*p as u64))))
                .set("mean_gap", J::u(plan.mean_gap as u64))
                .set("pct_depth", J::u(plan.pct_depth as u64))
                .set("sim_seed", J::s(&plan.sim_seed.to_string()))
                .set("cpus", J::u(plan.cpus as u64)),
        )
        .set("cases", J::arr(plan.cases.iter().map(|c| c.to_json())))
        .set("pristine", J::Bool(plan.pristine))
        .set(
            "history",
            J::arr(plan.history.iter().map(|h| {
                J::obj()
                    .set("op", J::s(h.op.name()))
                    .set("pool", J::u(h.pool as u64))
                    .set("split", J::s(split_name(h.split)))
                    .set("sched", J::s(sched_name(h.sched)))
                    .set("hooks", J::Bool(h.hooks))
                    .set("bb", J::Bool(h.bb))
                    .set(
                        "fault",
                        match h.fault {
                            Some((c, k)) => J::arr([J::u(c as u64), J::u(k as u64)].into_iter()),
                            None => J::Null,
                        },
                    )
                    .set("case", J::u(h.case as u64))
                    .set(
                        "with",
                        match h.with {
                            None => J::Null,
                            Some((op2, c2)) => J::obj().set("op", J::s(op2.name())).set("case", J::u(c2 as u64)),
                        },
                    )
            })),
        )
}

pub fn plan_from_json(j: &J) -> Result<Plan, String> {
    let cfg = j.get("config").ok_or("config missing")?;
    let history = j
        .get("history")
        .and_then(|h| h.as_arr())
        .ok_or("history missing")?
        .iter()
        .map(|h| {
            Ok(HistOp {
                op: OpKind::from_name(h.get("op").and_then(|o| o.as_str()).ok_or("op missing")?).ok_or("unknown op")?,
                pool: h.get("pool").and_then(|p| p.as_u64()).unwrap_or(0) as usize,
                split: split_from(h.get("split").and_then(|o| o.as_str()).unwrap_or("adaptive")).ok_or("unknown split")?,
                sched: sched_from(h.get("sched").and_then(|o| o.as_str()).unwrap_or("seq")).ok_or("unknown sched")?,
                hooks: h.get("hooks").and_then(|b| b.as_bool()).unwrap_or(false),
                bb: h.get("bb").and_then(|b| b.as_bool()).unwrap_or(false),
                fault: h.get("fault").and_then(|f| f.as_arr()).and_then(|a| {
                    if a.len() == 2 {
                        Some((a[0].as_u64()? as u32, a[1].as_u64()? as u32))
                    } else {
                        None
                    }
                }),
                case: h.get("case").and_then(|p| p.as_u64()).unwrap_or(0) as usize,
                with: match h.get("with") {
                    None | Some(J::Null) => None,
                    Some(w) => Some((
                        OpKind::from_name(w.get("op").and_then(|o| o.as_str()).ok_or("with.op missing")?).ok_or("unknown op")?,
                        w.get("case").and_then(|p| p.as_u64()).unwrap_or(0) as usize,
                    )),
                },
            })
        })
        .collect::<Result<Vec<_>, String>>()?;
    Ok(Plan {
        verif_seed: j.get("verif_seed").and_then(|s| s.as_str()).and_then(|s| s.parse().ok()).unwrap_or(0),
        run_index: j.get("run_index").and_then(|s| s.as_u64()).unwrap_or(0),
        pool_sizes: cfg
            .get("pool_sizes")
            .and_then(|p| p.as_arr())
            .ok_or("pool_sizes missing")?
            .iter()
            .map(|p| p.as_u64().unwrap_or(1) as usize)
            .collect(),
        mean_gap: cfg.get("mean_gap").and_then(|s| s.as_u64()).unwrap_or(8) as u32,
        pct_depth: cfg.get("pct_depth").and_then(|s| s.as_u64()).unwrap_or(1) as u32,
        sim_seed: cfg.get("sim_seed").and_then(|s| s.as_str()).and_then(|s| s.parse().ok()).unwrap_or(0),
        cases: match j.get("cases").and_then(|c| c.as_arr()) {
            Some(a) if !a.is_empty() => a.iter().map(Case::from_json).collect::<Result<Vec<_>, _>>()?,
            _ => vec![Case::from_json(j.get("case").ok_or("cases missing")?)?],
        },
        pristine: j.get("pristine").and_then(|b| b.as_bool()).unwrap_or(false),
        cpus: cfg.get("cpus").and_then(|s| s.as_u64()).unwrap_or(0) as usize,
        history,
    })
}

pub fn replay_json(plan: &Plan, decisions: &[u32], v: &Violation, minimised: bool, notes: &[String]) -> J {
    plan_to_json(plan)
        .set("property", J::s("C09"))
        .set("engine", J::s("E1:sim_rayon"))
        .set("kind", J::s("single"))
        .set("minimised", J::Bool(minimised))
        .set("decisions", rle(decisions))
        .set(
            "expect",
            J::obj()
                .set("class", J::s(&v.class))
                .set("op_index", J::u(v.op_index as u64))
                .set("op", J::s(v.op.name()))
                .set("component", J::s(&v.component))
                .set("digest_sim", J::s(&v.sim))
                .set("digest_ref", J::s(&v.reference)),
        )
        .set("notes", J::arr(notes.iter().map(|n| J::s(n))))
}

pub fn decisions_from_json(j: &J) -> Result<Vec<u32>, String> {
    unrle(j.get("decisions").ok_or("decisions missing")?)
}

// ---------------------------------------------------------------------------
// Minimisation
// ---------------------------------------------------------------------------

fn same_class(a: &Violation, b: &Violation) -> bool {
    // "digest of some component of some op differs from the reference", same
    // class of failure; the op kind must stay the same, its position may move
    a.class == b.class && a.op == b.op && (a.component == b.component || a.component.split('.').next() == b.component.split('.').next())
}

pub struct Minimised {
    pub plan: Plan,
    pub decisions: Vec<u32>,
    pub violation: Violation,
    pub steps: Vec<String>,
    pub evaluations: u64,
}

/// Greedy shrinking; a candidate is accepted only if the same class of
/// violation persists. A candidate is first tried with the recorded decisions
/// (cut to fit) and, because a structural change makes them line up badly,
/// then with a few fresh decision streams.
pub fn minimise(plan: &Plan, decisions: &[u32], marks: &[usize], v: &Violation, watchdog_s: u64, budget: u64) -> Minimised {
    // wall-clock cap: a violation that does not reproduce deterministically (its
    // source is outside the simulator, e.g. address-space layout) would otherwise
    // burn the whole evaluation budget
    let t_start = std::time::Instant::now();
    let max_secs: f64 = std::env::var("VERIF_MIN_SECONDS").ok().and_then(|s| s.parse().ok()).unwrap_or(40.0);
    let mut best_plan = plan.clone();
    let mut best_dec = decisions.to_vec();
    let mut best_marks = marks.to_vec();
    let mut best_v = v.clone();
    let mut steps = vec![];
    let mut evals = 0u64;

    struct Found {
        plan: Plan,
        dec: Vec<u32>,
        marks: Vec<usize>,
        v: Violation,
    }
    let try_cand = |p: &Plan, d: &[u32], fresh: u64, evals: &mut u64| -> Option<Found> {
        for attempt in 0..=fresh {
            if *evals >= budget || t_start.elapsed().as_secs_f64() > max_secs {
                *evals = budget;
                return None;
            }
            *evals += 1;
            let mut p = p.clone();
            let replay = if attempt == 0 {
                Some(d.to_vec())
            } else {
                p.sim_seed = mix(p.sim_seed, attempt, 0x5EED);
                None
            };
            let (r, nv) = run_plan(&p, replay, watchdog_s, false);
            if let Some(nv) = nv {
                if same_class(&nv, v) {
                    return Some(Found {
                        plan: p,
                        dec: r.decisions,
                        marks: r.marks,
                        v: nv,
                    });
                }
            }
        }
        None
    };
    macro_rules! accept {
        ($f:expr, $msg:expr) => {{
            let f: Found = $f;
            steps.push($msg);
            best_plan = f.plan;
            best_dec = f.dec;
            best_marks = f.marks;
            best_v = f.v;
        }};
    }

    // 1. drop ops from the history together with their decision segments;
    //    first try to keep the failing op alone
    if best_plan.history.len() > 1 && best_v.op_index < best_plan.history.len() && best_marks.len() == best_plan.history.len() {
        let i = best_v.op_index;
        let mut p = best_plan.clone();
        p.history = vec![best_plan.history[i].clone()];
        let lo = best_marks[i];
        let hi = best_marks.get(i + 1).copied().unwrap_or(best_dec.len());
        let d = best_dec[lo..hi].to_vec();
        if let Some(f) = try_cand(&p, &d, 3, &mut evals) {
            accept!(f, format!("kept only op {}", i));
        }
    }
    let mut i = 0;
    while i < best_plan.history.len() && best_plan.history.len() > 1 {
        let mut p = best_plan.clone();
        p.history.remove(i);
        let mut d = best_dec.clone();
        if best_marks.len() == best_plan.history.len() {
            let lo = best_marks[i];
            let hi = best_marks.get(i + 1).copied().unwrap_or(best_dec.len());
            d.drain(lo..hi);
        }
        if let Some(f) = try_cand(&p, &d, 1, &mut evals) {
            accept!(f, format!("dropped op {}", i));
        } else {
            i += 1;
        }
    }

    // 1a. simpler histories: no concurrent partner, fewer distinct inputs
    for i in 0..best_plan.history.len() {
        if best_plan.history[i].with.is_some() {
            let mut p = best_plan.clone();
            p.history[i].with = None;
            if let Some(f) = try_cand(&p, &best_dec, 2, &mut evals) {
                accept!(f, format!("op {}: no concurrent partner", i));
            }
        }
    }
    for i in 0..best_plan.history.len() {
        if best_plan.history[i].case != 0 {
            let mut p = best_plan.clone();
            p.history[i].case = 0;
            if let Some(f) = try_cand(&p, &best_dec, 2, &mut evals) {
                accept!(f, format!("op {}: base input instead of variant", i));
            }
        }
    }
    if best_plan.pristine && best_v.class != "seq_depends_on_process_history" {
        best_plan.pristine = false;
    }
    {
        // drop inputs no call refers to any more
        let used: Vec<usize> = (0..best_plan.cases.len())
            .filter(|&c| best_plan.history.iter().any(|h| h.case == c || h.with.map_or(false, |(_, w)| w == c)))
            .collect();
        if used.len() < best_plan.cases.len() && !used.is_empty() {
            let remap = |c: usize| used.iter().position(|&u| u == c).unwrap_or(0);
            let mut p = best_plan.clone();
            p.cases = used.iter().map(|&u| best_plan.cases[u].clone()).collect();
            for h in p.history.iter_mut() {
                h.case = remap(h.case);
                if let Some((o, w)) = h.with {
                    h.with = Some((o, remap(w)));
                }
            }
            if let Some(f) = try_cand(&p, &best_dec, 1, &mut evals) {
                accept!(f, format!("kept {} of the inputs", used.len()));
            }
        }
    }

    // 1b. prefer simpler, more aggressive modes (they reproduce more reliably
    //     on smaller inputs than e.g. PCT with far-away change points)
    for i in 0..best_plan.history.len() {
        for (sp, sc) in [
            (SplitMode::PerItem, SchedMode::Rev),
            (SplitMode::PerItem, SchedMode::LeafRandom),
            (SplitMode::PerItem, SchedMode::Interleave),
            (SplitMode::Adaptive, SchedMode::Interleave),
            (SplitMode::Adaptive, SchedMode::LeafRandom),
        ] {
            if best_plan.history[i].split == sp && best_plan.history[i].sched == sc {
                break;
            }
            let mut p = best_plan.clone();
            p.history[i].split = sp;
            p.history[i].sched = sc;
            if sc == SchedMode::Interleave {
                p.mean_gap = 1;
            }
            if let Some(f) = try_cand(&p, &best_dec, 2, &mut evals) {
                accept!(f, format!("op {}: modes -> {}/{}", i, split_name(sp), sched_name(sc)));
                break;
            }
        }
    }

    // 2. drop generators (big chunks first), input by input
    for ci in 0..best_plan.cases.len() {
        let mut chunk = (best_plan.cases[ci].gens.len() / 2).max(1);
        loop {
            let mut start = 0;
            let mut progressed = false;
            while start < best_plan.cases[ci].gens.len() && best_plan.cases[ci].gens.len() > 1 && evals < budget {
                let end = (start + chunk).min(best_plan.cases[ci].gens.len());
                if end - start >= best_plan.cases[ci].gens.len() {
                    break;
                }
                let mut p = best_plan.clone();
                p.cases[ci].gens.drain(start..end);
                if let Some(m) = &mut p.cases[ci].mask {
                    m.drain(start..end);
                }
                if let Some(f) = try_cand(&p, &best_dec, 3, &mut evals) {
                    accept!(f, format!("input {}: dropped generators {}..{}", ci, start, end));
                    progressed = true;
                } else {
                    start += chunk;
                }
            }
            if evals >= budget || (chunk == 1 && !progressed) {
                break;
            }
            if chunk > 1 {
                chunk /= 2;
            }
        }
    }

    // 3. shrink pools
    for pi in 0..best_plan.pool_sizes.len() {
        for &k in POOL_SIZES {
            if k >= best_plan.pool_sizes[pi] {
                break;
            }
            let mut p = best_plan.clone();
            p.pool_sizes[pi] = k;
            if let Some(f) = try_cand(&p, &best_dec, 2, &mut evals) {
                accept!(f, format!("pool {} -> {} workers", pi, k));
                break;
            }
        }
    }

    // 3b. the real machine instead of a simulated number of CPUs
    if best_plan.cpus != 0 {
        let mut p = best_plan.clone();
        p.cpus = 0;
        if let Some(f) = try_cand(&p, &best_dec, 1, &mut evals) {
            accept!(f, "simulated machine size off".to_string());
        }
    }

    // 4. turn hook preemption off
    for i in 0..best_plan.history.len() {
        if best_plan.history[i].bb {
            let mut p = best_plan.clone();
            p.history[i].bb = false;
            if let Some(f) = try_cand(&p, &best_dec, 1, &mut evals) {
                accept!(f, format!("op {}: basic-block preemption off", i));
            }
        }
        if best_plan.history[i].hooks {
            let mut p = best_plan.clone();
            p.history[i].hooks = false;
            if let Some(f) = try_cand(&p, &best_dec, 1, &mut evals) {
                accept!(f, format!("op {}: hooks off", i));
            }
        }
    }

    // 5. zero decision chunks (towards the sequential schedule)
    let mut chunk = (best_dec.len() / 2).max(1);
    while !best_dec.is_empty() && evals < budget {
        let mut start = 0;
        while start < best_dec.len() && evals < budget {
            let end = (start + chunk).min(best_dec.len());
            if best_dec[start..end].iter().any(|x| *x != 0) {
                let mut d = best_dec.clone();
                for x in &mut d[start..end] {
                    *x = 0;
                }
                if let Some(f) = try_cand(&best_plan, &d, 0, &mut evals) {
                    best_dec = f.dec;
                    best_marks = f.marks;
                    best_v = f.v;
                }
            }
            start = end;
        }
        if chunk == 1 {
            break;
        }
        chunk /= 2;
    }
    steps.push(format!(
        "decisions: {} total, {} non-zero",
        best_dec.len(),
        best_dec.iter().filter(|x| **x != 0).count()
    ));
    let _ = &best_marks;

    Minimised {
        plan: best_plan,
        decisions: best_dec,
        violation: best_v,
        steps,
        evaluations: evals,
    }
}
