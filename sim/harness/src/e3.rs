//! Engine E3 (supplementary, never decisive on its own): the library with the
//! *real* rayon, natively, compared with the sequential build. This is
//! observation of executions the harness does not control; it is kept because
//! a bitwise mismatch between two real executions is a violation with
//! certainty and because it keeps working when a changed tree uses a rayon API
//! the model lacks. See DESIGN.md §3.4.

use crate::{s_real, s_seq, Args};
use std::collections::BTreeMap;
use std::time::Instant;
use vcore::case::{gen_case, Case, GenLimits};
use vcore::digest::Outcome;
use vcore::json::J;
use vcore::rng::{mix, Rng};
use vcore::surface::{OpKind, ALL_OPS};

/// Every 8th case is large (up to `big_n` generators): thresholds on the number
/// of cells and real contention between many workers need it. Large cases only
/// run the two cheapest ops.
fn is_big(idx: u64) -> bool {
    idx % 8 == 5
}

fn case_for(seed: u64, idx: u64, max_n: usize, big_n: usize) -> Case {
    let mut rng = Rng::new(mix(seed, idx, 0xE3));
    if is_big(idx) {
        let n = 300 + rng.below((big_n.max(301) - 300) as u64) as usize;
        let mut c = gen_case(
            &mut rng,
            &GenLimits {
                max_n: n,
                min_n: n * 3 / 4,
                // (a wide pool meets really large 3D inputs: joint thresholds like "32 cells per worker")
                max_n_3d: if rayon::current_num_threads() >= 32 { 2600 } else { 1500 },
                ..Default::default()
            },
        );
        c.family = format!("big:{}", c.family);
        return c;
    }
    gen_case(
        &mut rng,
        &GenLimits {
            max_n,
            ..Default::default()
        },
    )
}

/// Two callers at once, each in a pool of its own (or both in the global pool).
fn run_two_callers(case: &Case, op: OpKind, threads: usize) -> (Outcome, Outcome) {
    if threads == 0 {
        return std::thread::scope(|s| {
            let a = s.spawn(|| s_real::run_op(case, op));
            let b = s.spawn(|| s_real::run_op(case, op));
            (a.join().expect("caller"), b.join().expect("caller"))
        });
    }
    let mk = || rayon::ThreadPoolBuilder::new().num_threads(threads).build().expect("pool");
    let (p1, p2) = (mk(), mk());
    std::thread::scope(|s| {
        let a = s.spawn(|| p1.install(|| s_real::run_op(case, op)));
        let b = s.spawn(|| p2.install(|| s_real::run_op(case, op)));
        (a.join().expect("caller"), b.join().expect("caller"))
    })
}

fn fresh<T: Send>(f: impl FnOnce() -> T + Send) -> T {
    std::thread::scope(|s| {
        std::thread::Builder::new().stack_size(64 << 20).spawn_scoped(s, f).expect("spawn").join().expect("reference thread panicked")
    })
}

thread_local! {
    /// Local pools live as long as the process, like the pools of a real
    /// application: their worker threads (and anything hanging on them) persist
    /// between calls.
    static POOLS: std::cell::RefCell<BTreeMap<usize, std::rc::Rc<rayon::ThreadPool>>> = std::cell::RefCell::new(BTreeMap::new());
}

fn run_real_in_pool(case: &Case, op: OpKind, threads: usize) -> Outcome {
    if threads == 0 {
        return s_real::run_op(case, op);
    }
    let pool = POOLS.with(|p| {
        p.borrow_mut()
            .entry(threads)
            .or_insert_with(|| std::rc::Rc::new(rayon::ThreadPoolBuilder::new().num_threads(threads).build().expect("pool")))
            .clone()
    });
    pool.install(|| s_real::run_op(case, op))
}

fn replay_json(seed: u64, idx: u64, case: &Case, op: OpKind, threads: usize, comp: &str, a: &str, b: &str) -> J {
    J::obj()
        .set("property", J::s("C09"))
        .set("engine", J::s("E3:native-real-rayon"))
        .set("replay", J::s("probabilistic: real threads, schedule not controlled; the replay repeats the call"))
        .set("verif_seed", J::s(&seed.to_string()))
        .set("case_index", J::u(idx))
        .set("case", case.to_json())
        .set("op", J::s(op.name()))
        .set("threads", J::u(threads as u64))
        .set(
            "expect",
            J::obj()
                .set("component", J::s(comp))
                .set("digest_real", J::s(a))
                .set("digest_ref", J::s(b)),
        )
}

pub fn cmd_e3(args: &Args) -> i32 {
    let seed = args.u64("seed", 1);
    let start = args.u64("start", 0);
    let count = args.u64("count", 20);
    let stride = args.u64("stride", 1).max(1);
    let max_n = args.u64("max-n", 200) as usize;
    let out = args.str("out", "/tmp/verif_out");
    let shard = args.u64("shard", 0);
    let replay_dir = args.str("replay-dir", "/verif/replays");
    let time_limit = args.f64("time-limit", 1e9);
    let pools: Vec<usize> = args
        .str("pools", "0,1,2,3,8")
        .split(',')
        .filter_map(|s| s.parse().ok())
        .collect();
    let seq_only = args.flag("seq-only");
    let big_n = args.u64("big-n", 4000) as usize;
    let mut big_cases = 0u64;
    let mut noise_cases = 0u64;
    let mut skipped_large_panic = 0u64;
    let mut two_caller_evals = 0u64;
    let _ = std::fs::create_dir_all(&out);
    let t0 = Instant::now();
    let mut evals = 0u64;
    let mut cases = 0u64;
    let mut by_pool: BTreeMap<usize, u64> = BTreeMap::new();
    let mut code = 0;
    let mut viol = J::Null;
    'outer: for k in 0..count {
        if t0.elapsed().as_secs_f64() > time_limit {
            break;
        }
        let idx = start + k * stride;
        let base = case_for(seed, idx, max_n, big_n);
        cases += 1;
        if args.flag("dump-case") {
            println!("{}", base.to_json().pretty());
            continue;
        }
        // two cases in three run with noise at the basic-block guards of the library: a yield, a
        // short spin or a short sleep at rarely executed sites and now and then anywhere, from a
        // per-thread PRNG. It widens the race windows of the real threads (uncontrolled, as all of E3).
        let noise = match std::env::var("VERIF_E3_NOISE").ok().as_deref() {
            Some("0") => false,
            Some("1") => true,
            _ => mix(seed, idx, 0x401) % 3 != 0,
        };
        if noise {
            noise_cases += 1;
            bbguard::set_noise_seed(mix(seed, idx, 0x4015E));
        }
        bbguard::set_mode(if noise { bbguard::MODE_NOISE } else { bbguard::MODE_OFF });
        let _ = std::fs::write(format!("{}/e3_shard_{}.progress", out, shard), format!("{}\n", idx));
        // a long-lived process calls the library with related inputs on the same
        // worker threads: base, a derived input, base again
        let mut vr = Rng::new(mix(seed, idx, 0xE3A));
        let variant = vcore::case::derive_variant(&mut vr, &base);
        let seq: Vec<&Case> = vec![&base, &variant, &base];
        for (step, case) in seq.into_iter().enumerate() {
            if step > 0 && (idx % 2 == 1 || is_big(idx)) {
                break;
            }
            if t0.elapsed().as_secs_f64() > time_limit + 5.0 {
                break 'outer;
            }
            let case = case.clone();
            let big = is_big(idx);
            if big && step == 0 {
                big_cases += 1;
            }
            for op in ALL_OPS {
            if big && !matches!(op, OpKind::Build | OpKind::FaceIntegralsSym) {
                continue;
            }
            if t0.elapsed().as_secs_f64() > time_limit + 5.0 {
                break 'outer;
            }
            let r = fresh(|| s_seq::run_op(&case, *op));
            if seq_only {
                if matches!(r, Outcome::Panic(_)) {
                    println!("SEQ-PANIC");
                }
                continue;
            }
            // The sequential loop stops at the first cell that panics, the parallel loop computes all the
            // others first: on a large input the library cannot handle (outside C09: both sides panic) the
            // parallel call is not bounded by the cost of the reference - CPU-hours of exact predicates on
            // ~1000 co-spherical generators - and a time limit would read that as a hang.
            if crate::over_budget(&r) || (case.gens.len() > 200 && matches!(r, Outcome::Panic(_)) && std::env::var("VERIF_DEV_NO_SKIP").is_err()) {
                skipped_large_panic += 1;
                continue;
            }
            bbguard::reset_hits();
            // two simultaneous callers (global pool, and two pools of 4)
            if step == 0 {
                for &t in &[0usize, 4] {
                    if big && t != 0 {
                        continue;
                    }
                    if t0.elapsed().as_secs_f64() > time_limit + 2.0 {
                        break 'outer;
                    }
                    let (a, b) = run_two_callers(&case, *op, t);
                    two_caller_evals += 2;
                    evals += 2;
                    for o in [a, b] {
                        if let Some((comp, x, y)) = o.first_diff(&r) {
                            let mut j = replay_json(seed, idx, &case, *op, t, &comp, &x, &y);
                            j.put("two_callers", J::Bool(true));
                            let path = crate::write_replay(&replay_dir, &format!("C09-E3-{}-{}.json", seed, idx), &j);
                            println!(
                                "E3-VIOLATION property=C09 case={} op={} threads={} component=two_callers:{} replay={}",
                                idx,
                                op.name(),
                                t,
                                comp,
                                path
                            );
                            viol = J::obj()
                                .set("case_index", J::u(idx))
                                .set("op", J::s(op.name()))
                                .set("threads", J::u(t as u64))
                                .set("component", J::s(&comp))
                                .set("replay", J::s(&path));
                            code = 1;
                            break 'outer;
                        }
                    }
                }
            }
            for &t in &pools {
                if big && t != 0 && t != 3 {
                    continue;
                }
                // twice: repeated calls in one process must agree too
                for _rep in 0..2 {
                    if t0.elapsed().as_secs_f64() > time_limit + 2.0 {
                        break 'outer;
                    }
                    let o = run_real_in_pool(&case, *op, t);
                    evals += 1;
                    *by_pool.entry(t).or_insert(0) += 1;
                    if let Some((comp, a, b)) = o.first_diff(&r) {
                        let j = replay_json(seed, idx, &case, *op, t, &comp, &a, &b);
                        let path = crate::write_replay(&replay_dir, &format!("C09-E3-{}-{}.json", seed, idx), &j);
                        println!(
                            "E3-VIOLATION property=C09 case={} op={} threads={} component={} replay={}",
                            idx,
                            op.name(),
                            t,
                            comp,
                            path
                        );
                        viol = J::obj()
                            .set("case_index", J::u(idx))
                            .set("op", J::s(op.name()))
                            .set("threads", J::u(t as u64))
                            .set("component", J::s(&comp))
                            .set("replay", J::s(&path));
                        code = 1;
                        break 'outer;
                    }
                }
            }
            }
        }
    }
    let j = J::obj()
        .set("engine", J::s("E3"))
        .set("shard", J::u(shard))
        .set("rayon_num_threads_env", J::s(&std::env::var("RAYON_NUM_THREADS").unwrap_or_default()))
        .set("global_pool_threads", J::u(rayon::current_num_threads() as u64))
        .set("cases", J::u(cases))
        .set("big_cases", J::u(big_cases))
        .set("noise_cases", J::u(noise_cases))
        .set("ops_not_run_large_input_whose_sequential_build_panics", J::u(skipped_large_panic))
        .set("noise_events", J::u(bbguard::counters().2))
        .set("guard_sites", J::u(bbguard::sites() as u64))
        .set("two_caller_evaluations", J::u(two_caller_evals))
        .set("evaluations", J::u(evals))
        .set(
            "by_local_pool",
            J::Obj(by_pool.into_iter().map(|(k, v)| (if k == 0 { "global".to_string() } else { k.to_string() }, J::u(v))).collect()),
        )
        .set("wall_s", J::Num(t0.elapsed().as_secs_f64()))
        .set("violation", viol);
    let _ = std::fs::create_dir_all(&out);
    let _ = std::fs::write(format!("{}/e3_shard_{}.json", out, shard), j.pretty());
    code
}

pub fn replay(j: &J, path: &str, args: &Args) -> i32 {
    let case = match j.get("case").ok_or("case missing".to_string()).and_then(Case::from_json) {
        Ok(c) => c,
        Err(e) => {
            eprintln!("replay: {}", e);
            return 2;
        }
    };
    let op = match j.get("op").and_then(|o| o.as_str()).and_then(OpKind::from_name) {
        Some(o) => o,
        None => {
            eprintln!("replay: op missing");
            return 2;
        }
    };
    let threads = j.get("threads").and_then(|t| t.as_u64()).unwrap_or(0) as usize;
    let reps = args.u64("reps", 200);
    let two = j.get("two_callers").and_then(|b| b.as_bool()).unwrap_or(false);
    let r = s_seq::run_op(&case, op);
    for i in 0..reps {
        // alternate plain and noisy attempts
        bbguard::set_noise_seed(mix(i, 0xE3, 0x4015E));
        bbguard::set_mode(if i % 2 == 1 { bbguard::MODE_NOISE } else { bbguard::MODE_OFF });
        bbguard::reset_hits();
        let o = if two {
            let (a, b) = run_two_callers(&case, op, threads);
            if a.first_diff(&r).is_some() {
                a
            } else {
                b
            }
        } else {
            run_real_in_pool(&case, op, threads)
        };
        if let Some((comp, a, b)) = o.first_diff(&r) {
            println!("replayed (attempt {}): component={} digest_real={} digest_ref={}", i, comp, a, b);
            println!("VIOLATION property=C09 replay={}", path);
            return 1;
        }
    }
    println!("REPLAY-NO-VIOLATION property=C09 replay={} (probabilistic replay, {} attempts)", path, reps);
    0
}
