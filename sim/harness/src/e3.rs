//! Engine E3 (supplementary): real rayon, natively. See DESIGN.md §3.4.
use crate::Args;
use vcore::json::J;

pub fn cmd_e3(_args: &Args) -> i32 {
    2
}
pub fn replay(_j: &J, _path: &str, _args: &Args) -> i32 {
    2
}
