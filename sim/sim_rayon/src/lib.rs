//! `sim_rayon`: a schedule-owning model of rayon.
//!
//! Imported under the name `rayon` by the shadow build of the library under
//! test. It offers the same names and bounds as the part of rayon's API that
//! data-parallel code normally uses, but every scheduling decision (how an
//! operation is split, which worker runs what, when a worker is preempted) is
//! taken by a seeded simulator. See `sim`.

pub mod clock;
pub mod iter;
pub mod sim;
pub mod slice;
pub mod sys;

pub mod prelude {
    pub use crate::iter::{
        FromParallelIterator, IndexedParallelIterator, IntoParallelIterator,
        IntoParallelRefIterator, IntoParallelRefMutIterator, ParallelBridge, ParallelExtend,
        ParallelIterator,
    };
    pub use crate::iter::{ParallelDrainFull, ParallelDrainRange};
    pub use crate::slice::{ParallelSlice, ParallelSliceMut};
}

pub use sim::{
    current_num_threads, current_thread_has_pending_tasks, current_thread_index, in_place_scope, in_place_scope_fifo, join, join_context,
    broadcast, max_num_threads, scope, scope_fifo, spawn, spawn_broadcast, spawn_fifo, yield_local, yield_now, BroadcastContext, FnContext, Scope, ThreadPool, ThreadPoolBuildError,
    ThreadPoolBuilder, Yield,
};
