//! The clock seam.
//!
//! The pinned library reads no clock, but a changed one may (time budgets,
//! adaptive strategies), and then its results depend on how fast a thread got
//! through its work. std reads time through libc's `clock_gettime`; a definition
//! of that symbol in the executable takes precedence over the one in libc.so, so
//! this crate defines it: a pass-through to the real system call, except on
//! threads that are part of a simulation, where the simulator's offset is added.
//! The offset only ever grows (monotonic time stays monotonic); the scheduler
//! advances it at its own yield points - steady drift or one jump of up to an
//! hour per operation, drawn from the decision stream ("the thread was descheduled
//! for a while"). The harness' own deadlines run on threads that are not marked.

use std::cell::Cell;
use std::sync::atomic::{AtomicI64, AtomicU64, Ordering};

thread_local! {
    static SIM_TIME: Cell<bool> = const { Cell::new(false) };
}
static OFFSET_NS: AtomicI64 = AtomicI64::new(0);
static READS: AtomicU64 = AtomicU64::new(0);

/// Mark / unmark the calling thread as living on simulated time. Returns the previous state.
pub fn set_thread_sim_time(on: bool) -> bool {
    SIM_TIME.try_with(|c| c.replace(on)).unwrap_or(false)
}

pub fn thread_on_sim_time() -> bool {
    SIM_TIME.try_with(|c| c.get()).unwrap_or(false)
}

pub fn reset() {
    OFFSET_NS.store(0, Ordering::SeqCst);
}

pub fn advance_ns(ns: i64) {
    OFFSET_NS.fetch_add(ns.max(0), Ordering::SeqCst);
}

pub fn offset_ns() -> i64 {
    OFFSET_NS.load(Ordering::SeqCst)
}

/// Clock reads made by simulated threads since process start.
pub fn reads() -> u64 {
    READS.load(Ordering::Relaxed)
}

/// The real monotonic clock, whatever the calling thread is marked as.
pub fn real_now_ns() -> u64 {
    let mut ts = libc::timespec { tv_sec: 0, tv_nsec: 0 };
    unsafe {
        crate::sys::raw_syscall(libc::SYS_clock_gettime, libc::CLOCK_MONOTONIC, &mut ts as *mut libc::timespec);
    }
    ts.tv_sec as u64 * 1_000_000_000 + ts.tv_nsec as u64
}

/// Interposed `clock_gettime` (see the module documentation).
///
/// # Safety
/// Same contract as the C function: `ts` must be valid for writes.
#[no_mangle]
pub unsafe extern "C" fn clock_gettime(clk: libc::clockid_t, ts: *mut libc::timespec) -> libc::c_int {
    let r = crate::sys::raw_syscall(libc::SYS_clock_gettime, clk, ts) as libc::c_int;
    if r != 0 || ts.is_null() {
        return r;
    }
    let wall_like = matches!(
        clk,
        libc::CLOCK_MONOTONIC
            | libc::CLOCK_REALTIME
            | libc::CLOCK_BOOTTIME
            | libc::CLOCK_MONOTONIC_RAW
            | libc::CLOCK_MONOTONIC_COARSE
            | libc::CLOCK_REALTIME_COARSE
    );
    if wall_like && SIM_TIME.try_with(|c| c.get()).unwrap_or(false) {
        READS.fetch_add(1, Ordering::Relaxed);
        let off = OFFSET_NS.load(Ordering::SeqCst);
        if off > 0 {
            let t = &mut *ts;
            let total = t.tv_nsec as i64 + off % 1_000_000_000;
            t.tv_sec += (off / 1_000_000_000 + total / 1_000_000_000) as libc::time_t;
            t.tv_nsec = (total % 1_000_000_000) as libc::c_long;
        }
    }
    r
}
