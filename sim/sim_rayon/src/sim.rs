//! The schedule-owning core: a model of a work-stealing fork-join pool whose
//! workers are real OS threads that are parked and released one at a time.
//!
//! Exactly one thread of a simulation (the *driver* or one *worker*) runs at
//! any moment: it holds the token. At every *yield point* the token holder
//! consults the scheduler, which draws every choice from one decision stream
//! (a PRNG, or a recorded list when replaying). No real time is read and no
//! two threads of one simulation ever run concurrently, so an execution is a
//! pure function of the decision stream.

use std::any::Any;
use std::cell::RefCell;
use std::collections::VecDeque;
use std::panic::{self, AssertUnwindSafe};
use std::sync::atomic::{AtomicBool, AtomicU64, Ordering};
use std::sync::atomic::AtomicU8;
use std::sync::{Arc, Mutex, MutexGuard};
use std::thread::{self, JoinHandle};
use std::time::{Duration, Instant};

// ---------------------------------------------------------------------------
// PRNG (SplitMix64 seeding a xoshiro256**)
// ---------------------------------------------------------------------------

#[derive(Clone, Debug)]
pub struct Rng {
    s: [u64; 4],
}

pub fn splitmix64(x: &mut u64) -> u64 {
    *x = x.wrapping_add(0x9E37_79B9_7F4A_7C15);
    let mut z = *x;
    z = (z ^ (z >> 30)).wrapping_mul(0xBF58_476D_1CE4_E5B9);
    z = (z ^ (z >> 27)).wrapping_mul(0x94D0_49BB_1331_11EB);
    z ^ (z >> 31)
}

impl Rng {
    pub fn new(seed: u64) -> Self {
        let mut x = seed;
        let s = [splitmix64(&mut x), splitmix64(&mut x), splitmix64(&mut x), splitmix64(&mut x)];
        Rng { s }
    }
    pub fn next_u64(&mut self) -> u64 {
        let r = self.s[1].wrapping_mul(5).rotate_left(7).wrapping_mul(9);
        let t = self.s[1] << 17;
        self.s[2] ^= self.s[0];
        self.s[3] ^= self.s[1];
        self.s[1] ^= self.s[2];
        self.s[0] ^= self.s[3];
        self.s[2] ^= t;
        self.s[3] = self.s[3].rotate_left(45);
        r
    }
    /// Uniform in `0..n` (n > 0).
    pub fn below(&mut self, n: u64) -> u64 {
        // multiply-shift; bias is irrelevant here
        ((self.next_u64() as u128 * n as u128) >> 64) as u64
    }
    pub fn f64(&mut self) -> f64 {
        (self.next_u64() >> 11) as f64 / (1u64 << 53) as f64
    }
}

// ---------------------------------------------------------------------------
// Configuration
// ---------------------------------------------------------------------------

/// How a terminal operation is cut into leaves.
#[derive(Clone, Copy, Debug, PartialEq, Eq)]
pub enum SplitMode {
    /// rayon's adaptive thief splitter: `splits = k`, halve at every split,
    /// reset to `k` when a job was stolen, always cut at the midpoint.
    Adaptive,
    /// Cut points and depth drawn from the decision stream.
    Random,
    /// Every item is its own leaf.
    PerItem,
    /// One leaf.
    Whole,
}

/// Who runs next.
#[derive(Clone, Copy, Debug, PartialEq, Eq)]
pub enum SchedMode {
    /// Never switch voluntarily (a thief only runs when nothing else can).
    Seq,
    /// At a `JoinPush` always hand over to an idle worker when there is one, so
    /// right halves complete before left halves.
    Rev,
    /// Switch only at job/leaf boundaries; the next thread is uniform.
    LeafRandom,
    /// Item-level (and hook-level) random interleaving; the gaps between
    /// preemptions are drawn from the decision stream.
    Interleave,
    /// PCT: random priorities, `pct_depth` priority-change points.
    Pct,
    /// One worker freezes mid-leaf until everything else has drained.
    Stall,
}

#[derive(Clone, Debug)]
pub struct SimConfig {
    /// Number of workers of each pool; `set_pool(i)` selects one.
    pub pool_sizes: Vec<usize>,
    pub split: SplitMode,
    pub sched: SchedMode,
    /// Preempt at `sched_point` hooks inside an item.
    pub preempt_hooks: bool,
    /// Preempt at the basic-block guards of the instrumented library (see `bbguard`).
    pub preempt_bb: bool,
    /// Mean number of yield points between two preemptions (Interleave).
    pub mean_gap: u32,
    pub pct_depth: u32,
    /// Seconds of real time without any yield point before the simulation is
    /// declared blocked.
    pub watchdog_s: u64,
}

impl Default for SimConfig {
    fn default() -> Self {
        SimConfig {
            pool_sizes: vec![4],
            split: SplitMode::Adaptive,
            sched: SchedMode::Interleave,
            preempt_hooks: true,
            preempt_bb: false,
            mean_gap: 8,
            pct_depth: 2,
            watchdog_s: 20,
        }
    }
}

// ---------------------------------------------------------------------------
// Statistics (reach measurement)
// ---------------------------------------------------------------------------

#[derive(Clone, Debug, Default)]
pub struct Stats {
    pub ops: u64,
    pub leaves: u64,
    pub items: u64,
    pub splits: u64,
    pub joins: u64,
    pub steals: u64,
    pub injected: u64,
    pub context_switches: u64,
    pub preempt_item: u64,
    pub preempt_hook: u64,
    pub preempt_join: u64,
    pub stalls: u64,
    pub pct_changes: u64,
    pub reentrant_steals: u64,
    pub pool_switches: u64,
    pub yields: u64,
    pub hook_yields: u64,
    pub max_in_flight: u64,
    pub max_leaves_per_op: u64,
    pub unstable_sort_perms: u64,
    pub find_any_choices: u64,
    pub scheduler_steps: u64,
    pub decisions: u64,
    /// Items that completed while an item with a smaller base index of the
    /// same operation had not yet completed.
    pub out_of_order_items: u64,
    pub workers_used_max: u64,
    /// Clock seam: operations with drifting time, jumps taken, simulated nanoseconds added.
    pub clock_drift_ops: u64,
    pub clock_jumps: u64,
    pub clock_ns_added: u64,
    /// Basic-block guards: times the scheduler looked at one (countdown / rare site), preemptions taken there.
    pub bb_yields: u64,
    pub bb_rare_yields: u64,
    pub preempt_bb: u64,
    pub preempt_bb_rare: u64,
    /// Emulated futex: waits that parked a worker in the simulator, wakes that released one, waits that timed out,
    /// sleeps turned into simulated time.
    pub futex_waits: u64,
    pub futex_wakes: u64,
    pub futex_timeouts: u64,
    pub sleeps_simulated: u64,
    pub bb_guards_passed: u64,
    /// Switches forced by the fairness bound, `sched_yield`s of simulated threads.
    pub fairness_switches: u64,
    pub spin_yields: u64,
    /// A worker descheduled for a drawn number of steps at a rarely executed site.
    pub rare_site_suspensions: u64,
    /// Atomic operations of the instrumented library at which the scheduler looked / preempted.
    pub atomic_yields: u64,
    pub preempt_atomic: u64,
    /// Operations at whose start or end the process had threads the simulator does not own (the
    /// tree under test started them): such a run is not a function of the decisions alone.
    pub ops_with_outside_threads: u64,
    /// Threads created by the program under simulation and adopted by the scheduler.
    pub threads_adopted: u64,
}

impl Stats {
    pub fn add(&mut self, o: &Stats) {
        self.ops += o.ops;
        self.leaves += o.leaves;
        self.items += o.items;
        self.splits += o.splits;
        self.joins += o.joins;
        self.steals += o.steals;
        self.injected += o.injected;
        self.context_switches += o.context_switches;
        self.preempt_item += o.preempt_item;
        self.preempt_hook += o.preempt_hook;
        self.preempt_join += o.preempt_join;
        self.stalls += o.stalls;
        self.pct_changes += o.pct_changes;
        self.reentrant_steals += o.reentrant_steals;
        self.pool_switches += o.pool_switches;
        self.yields += o.yields;
        self.hook_yields += o.hook_yields;
        self.max_in_flight = self.max_in_flight.max(o.max_in_flight);
        self.max_leaves_per_op = self.max_leaves_per_op.max(o.max_leaves_per_op);
        self.unstable_sort_perms += o.unstable_sort_perms;
        self.find_any_choices += o.find_any_choices;
        self.scheduler_steps += o.scheduler_steps;
        self.decisions += o.decisions;
        self.out_of_order_items += o.out_of_order_items;
        self.workers_used_max = self.workers_used_max.max(o.workers_used_max);
        self.clock_drift_ops += o.clock_drift_ops;
        self.clock_jumps += o.clock_jumps;
        self.clock_ns_added += o.clock_ns_added;
        self.bb_yields += o.bb_yields;
        self.bb_rare_yields += o.bb_rare_yields;
        self.preempt_bb += o.preempt_bb;
        self.preempt_bb_rare += o.preempt_bb_rare;
        self.futex_waits += o.futex_waits;
        self.futex_wakes += o.futex_wakes;
        self.futex_timeouts += o.futex_timeouts;
        self.sleeps_simulated += o.sleeps_simulated;
        self.bb_guards_passed += o.bb_guards_passed;
        self.fairness_switches += o.fairness_switches;
        self.spin_yields += o.spin_yields;
        self.rare_site_suspensions += o.rare_site_suspensions;
        self.atomic_yields += o.atomic_yields;
        self.preempt_atomic += o.preempt_atomic;
        self.ops_with_outside_threads += o.ops_with_outside_threads;
        self.threads_adopted += o.threads_adopted;
    }
}

// ---------------------------------------------------------------------------
// Yield kinds
// ---------------------------------------------------------------------------

#[derive(Clone, Copy, Debug, PartialEq, Eq)]
pub enum YieldKind {
    JobStart,
    JoinPush,
    Item,
    Hook,
    LeafEnd,
    JobEnd,
    /// Access to a structure shared between workers (e.g. the iterator behind
    /// `par_bridge`): treated like a job boundary.
    Shared,
    /// Forced: waiting for a latch that is not set.
    Wait,
    /// Forced: worker has nothing to do.
    Idle,
    /// A basic-block guard whose countdown ran out (like `Hook`, for code without hooks).
    Bb,
    /// A basic-block guard at a rarely executed site: treated like a job boundary.
    BbRare,
    /// Forced: the worker waits on a futex (a std lock, condvar, channel, `park`) that another
    /// simulated thread has to release.
    Blocked,
    /// `thread::sleep` on a simulated thread: simulated time has passed; treated like a job boundary.
    Sleep,
    /// `thread::yield_now` (a spin loop being polite): somebody else runs if anybody can.
    SpinYield,
    /// An adopted thread's start routine has returned: the token goes to somebody else for good.
    Exit,
    /// An atomic operation of the instrumented library is about to happen (`bbguard::tsan`):
    /// where lock-free code communicates. Treated like a job boundary, and the preferred place
    /// for descheduling a thread.
    Atomic,
}

// ---------------------------------------------------------------------------
// Jobs
// ---------------------------------------------------------------------------

/// A type-erased pointer to a job living on some thread's stack (or heap).
#[derive(Clone, Copy)]
struct JobRef {
    data: *const (),
    exec: unsafe fn(*const (), bool),
    /// Identity used to recognise "my own right-hand side" on the deque.
    id: u64,
    /// Worker that pushed the job (usize::MAX for the injector).
    origin: usize,
}
unsafe impl Send for JobRef {}

struct StackJob<F, R> {
    func: Mutex<Option<F>>,
    result: Mutex<Option<thread::Result<R>>>,
    done: AtomicBool,
}

impl<F: FnOnce(bool) -> R + Send, R: Send> StackJob<F, R> {
    fn new(f: F) -> Self {
        StackJob {
            func: Mutex::new(Some(f)),
            result: Mutex::new(None),
            done: AtomicBool::new(false),
        }
    }
    unsafe fn exec(ptr: *const (), migrated: bool) {
        let this = &*(ptr as *const Self);
        let f = {
            let _i = InternalSection::new();
            this.func.lock().unwrap().take().expect("job executed twice")
        };
        let r = panic::catch_unwind(AssertUnwindSafe(|| f(migrated)));
        let _i = InternalSection::new();
        *this.result.lock().unwrap() = Some(r);
        this.done.store(true, Ordering::SeqCst);
    }
    fn job_ref(&self, id: u64, origin: usize) -> JobRef {
        JobRef {
            data: self as *const Self as *const (),
            exec: Self::exec,
            id,
            origin,
        }
    }
    fn take_result(&self) -> thread::Result<R> {
        let _i = InternalSection::new();
        self.result.lock().unwrap().take().expect("job result missing")
    }
}

struct HeapJob {
    func: Box<dyn FnOnce() + Send>,
}
impl HeapJob {
    unsafe fn exec(ptr: *const (), _migrated: bool) {
        let this = Box::from_raw(ptr as *mut HeapJob);
        (this.func)();
    }
}

// ---------------------------------------------------------------------------
// Threads of a simulation
// ---------------------------------------------------------------------------

const DRIVER: usize = usize::MAX;

/// How a thread of the simulation waits for the token. A futex word of its own, waited on and
/// woken through the raw system call: not `thread::park` - the code under simulation may be in
/// the middle of using the calling thread's std parker (channels, `thread::park` itself) when
/// the scheduler parks it, and std's parker is not re-entrant.
struct Parker {
    go: std::sync::atomic::AtomicU32,
}

impl Parker {
    fn new() -> Self {
        Parker {
            go: std::sync::atomic::AtomicU32::new(0),
        }
    }
    fn release(&self) {
        self.go.store(1, Ordering::SeqCst);
        unsafe {
            crate::sys::raw6(libc::SYS_futex, &self.go as *const _ as usize, (libc::FUTEX_WAKE | libc::FUTEX_PRIVATE_FLAG) as usize, 1, 0, 0, 0);
        }
    }
    /// Take the token if it is there.
    fn try_take(&self) -> bool {
        self.go.swap(0, Ordering::SeqCst) != 0
    }
    /// Sleep until released or for at most `ms` milliseconds of real time.
    fn wait_ms(&self, ms: u64) {
        let ts = libc::timespec {
            tv_sec: (ms / 1000) as libc::time_t,
            tv_nsec: ((ms % 1000) * 1_000_000) as libc::c_long,
        };
        unsafe {
            let e = *libc::__errno_location();
            crate::sys::raw6(
                libc::SYS_futex,
                &self.go as *const _ as usize,
                (libc::FUTEX_WAIT | libc::FUTEX_PRIVATE_FLAG) as usize,
                0,
                &ts as *const _ as usize,
                0,
                0,
            );
            *libc::__errno_location() = e;
        }
    }
}

#[derive(Clone, Copy, Debug, PartialEq, Eq)]
enum Status {
    /// Parked with nothing on its stack.
    Idle,
    /// In the middle of a job (holds the token, or was preempted).
    Running,
    /// In the middle of a job, waiting for the job with this id to finish.
    Waiting(u64),
}

struct Worker {
    parker: Arc<Parker>,
    deque: VecDeque<JobRef>,
    /// Jobs of `broadcast` / `spawn_broadcast` addressed to this worker: nobody else may take them.
    broadcasts: VecDeque<JobRef>,
    status: Status,
    /// Yield kind at which the worker is parked (None while it runs).
    parked_at: Option<YieldKind>,
    /// Depth of nested job executions on this worker's stack.
    depth: u32,
    priority: i64,
    handle: Option<JoinHandle<()>>,
    ran_anything: bool,
    /// Emulated futex wait: the flag another thread's wake sets, and whether the wait has a timeout.
    futex: Option<Arc<AtomicU8>>,
    futex_timeout: bool,
    /// Descheduled at a rarely executed site until this step of the current operation (0 = not).
    suspend_until: u64,
    /// Not a worker of the pool but a thread that the program under simulation created itself
    /// (`std::thread`), adopted by the scheduler (`adopt_thread`): it runs only with the token.
    foreign: bool,
    /// Set when an adopted thread's start routine has returned (what a join waits for).
    exit_flag: Arc<AtomicU8>,
}

struct Pool {
    workers: Vec<Worker>,
    injector: VecDeque<JobRef>,
}

struct Policy {
    gap: u32,
    step: u64,
    pct_points: Vec<u64>,
    pct_low: i64,
    stall_victim: usize,
    stall_at: u64,
    stalled: bool,
    stall_done: bool,
    /// Step at which the current stall began (a stall is bounded: the others may be spinning on
    /// something the victim holds).
    stall_began: u64,
    /// Consecutive voluntary yield points at which the running thread simply went on. Bounded, so
    /// that a spin loop waiting for another thread cannot run for ever under a schedule that
    /// favours the spinner (any real scheduler is eventually fair).
    run_streak: u64,
    /// A rare site triggers a priority change (PCT) or the stall one time in `2^rare_shift`; drawn
    /// per operation, so that early and late sites of an operation are reached alike.
    rare_shift: u32,
    /// Likewise for the suspensions at rare sites: one time in `2^susp_shift`.
    susp_shift: u32,
    /// Clock plan of the current root operation.
    clock_drift_ns: u64,
    clock_jump_at: u64,
    clock_jump_ns: u64,
}

struct OpTrace {
    hash: u64,
    shape: u64,
    leaves: u64,
    /// base indices of items started but not finished, per worker (usize::MAX = none)
    completed_max: i64,
}

struct Inner {
    cfg: SimConfig,
    rng: Rng,
    replay: Option<Vec<u32>>,
    replay_pos: usize,
    log: Vec<u32>,
    pools: Vec<Pool>,
    active: usize,
    current: usize,
    /// Latch the driver waits for.
    driver_wait: Option<u64>,
    /// Emulated futex wait of the driver (the simulated program's main thread).
    driver_futex: Option<Arc<AtomicU8>>,
    driver_futex_timeout: bool,
    /// The driver called `yield_now` (it spins on something a worker has to do) and waits for the token.
    driver_yielded: bool,
    driver_looks: u64,
    /// Thread ids of the process when the simulation was created plus those of its workers: a
    /// thread with another id is one the simulator does not know - it may still wake a waiter.
    known_tids: std::collections::BTreeSet<u64>,
    workers_registered: usize,
    finished_jobs: std::collections::BTreeSet<u64>,
    next_job_id: u64,
    policy: Policy,
    stats: Stats,
    op: OpTrace,
    op_hashes: Vec<(u64, u64, u64)>,
    shutdown: bool,
    detached: u64,
}

pub struct Sim {
    inner: Mutex<Inner>,
    driver_parker: Arc<Parker>,
    progress: AtomicU64,
    blocked: AtomicBool,
    watchdog_s: u64,
    /// Fast path for hook sites: preemption at hooks is off (or pointless) for
    /// the current operation; such calls are only counted.
    hooks_live: AtomicBool,
    hooks_passed: AtomicU64,
    bb_passed: AtomicU64,
    futex_wakes_at_start: u64,
}

/// The simulator's lock on its own state. While one is alive the thread counts as being inside
/// the simulator: basic-block guards and emulated system calls pass through (the lock is not
/// re-entrant, and a thread must never be parked by the scheduler while it holds it).
struct G<'a>(Option<MutexGuard<'a, Inner>>);
impl<'a> std::ops::Deref for G<'a> {
    type Target = Inner;
    fn deref(&self) -> &Inner {
        self.0.as_ref().unwrap()
    }
}
impl<'a> std::ops::DerefMut for G<'a> {
    fn deref_mut(&mut self) -> &mut Inner {
        self.0.as_mut().unwrap()
    }
}
impl<'a> Drop for G<'a> {
    fn drop(&mut self) {
        self.0.take();
        bbguard::leave_internal();
    }
}

/// A stretch of the simulator's own code on the current thread (see `G`).
pub(crate) struct InternalSection;
impl InternalSection {
    #[inline]
    pub(crate) fn new() -> Self {
        bbguard::enter_internal();
        InternalSection
    }
}
impl Drop for InternalSection {
    #[inline]
    fn drop(&mut self) {
        bbguard::leave_internal();
    }
}

const FUTEX_WAITING: u8 = 0;
const FUTEX_WOKEN: u8 = 1;

thread_local! {
    static CURRENT: RefCell<Option<(Arc<Sim>, usize, usize)>> = const { RefCell::new(None) };
}

/// (simulation, thread index within its pool or DRIVER)
fn current() -> Option<(Arc<Sim>, usize)> {
    CURRENT.with(|c| c.borrow().as_ref().map(|(s, _, i)| (s.clone(), *i)))
}

fn current_pool() -> usize {
    CURRENT.try_with(|c| c.try_borrow().ok().and_then(|b| b.as_ref().map(|(_, p, _)| *p))).ok().flatten().unwrap_or(0)
}

/// Exit code used when the watchdog declares a simulation blocked.
pub const EXIT_BLOCKED: i32 = 3;

fn fnv(h: u64, x: u64) -> u64 {
    let mut h = h;
    for i in 0..8 {
        h ^= (x >> (8 * i)) & 0xff;
        h = h.wrapping_mul(0x0000_0100_0000_01B3);
    }
    h
}

impl Inner {
    // ---- decisions -------------------------------------------------------

    /// One decision in `0..n`; 0 is always the "most sequential" option.
    fn choose(&mut self, n: u64) -> u64 {
        if n <= 1 {
            return 0;
        }
        let v = match &self.replay {
            Some(r) => {
                let v = r.get(self.replay_pos).copied().unwrap_or(0) as u64;
                self.replay_pos += 1;
                v % n
            }
            None => self.rng.below(n),
        };
        self.log.push(v as u32);
        self.stats.decisions += 1;
        v
    }

    /// Gap (number of voluntary yield points to skip) until the next
    /// preemption. Decision 0 means "do not preempt again".
    fn draw_gap(&mut self) -> u32 {
        let m = self.cfg.mean_gap.max(1) as u64;
        let d = self.choose(16 * m + 1);
        if d == 0 {
            u32::MAX
        } else {
            ((d - 1) % (2 * m)) as u32
        }
    }

    fn pool(&mut self) -> &mut Pool {
        let a = self.active;
        &mut self.pools[a]
    }

    fn k(&self) -> usize {
        self.pools[self.active].workers.len()
    }

    fn job_done(&self, id: u64) -> bool {
        self.finished_jobs.contains(&id)
    }

    fn stealable_for(&self, w: usize) -> bool {
        let p = &self.pools[self.active];
        if !p.injector.is_empty() {
            return true;
        }
        p.workers.iter().enumerate().any(|(i, o)| i != w && !o.deque.is_empty())
    }

    fn runnable(&self, t: usize) -> bool {
        if t == DRIVER {
            if let Some(f) = &self.driver_futex {
                return self.driver_futex_timeout || f.load(Ordering::SeqCst) != FUTEX_WAITING;
            }
            return match self.driver_wait {
                Some(id) => self.job_done(id),
                None => true,
            };
        }
        let w = &self.pools[self.active].workers[t];
        if w.foreign && w.exit_flag.load(Ordering::SeqCst) != FUTEX_WAITING {
            return false;
        }
        if w.suspend_until > self.policy.step {
            return false;
        }
        if let Some(f) = &w.futex {
            return w.futex_timeout || f.load(Ordering::SeqCst) != FUTEX_WAITING;
        }
        // A worker that was preempted (parked at a voluntary yield point) can always go on, whatever
        // its bookkeeping status says: a guard may fire between `status = Waiting` and the wait itself.
        if !matches!(w.parked_at, None | Some(YieldKind::Wait) | Some(YieldKind::Idle) | Some(YieldKind::Blocked)) {
            return true;
        }
        match w.status {
            Status::Running => true,
            Status::Idle => !w.deque.is_empty() || !w.broadcasts.is_empty() || self.stealable_for(t),
            Status::Waiting(id) => self.job_done(id) || !w.deque.is_empty() || !w.broadcasts.is_empty() || self.stealable_for(t),
        }
    }

    fn runnable_set(&self) -> Vec<usize> {
        let mut v = vec![];
        for t in 0..self.k() {
            if self.runnable(t) {
                v.push(t);
            }
        }
        if (self.driver_wait.is_some() || self.driver_futex.is_some() || self.driver_yielded) && self.runnable(DRIVER) {
            v.push(DRIVER);
        }
        v
    }

    /// A stalled worker only runs when nobody else can.
    fn filter_stalled(&self, set: &mut Vec<usize>) {
        if self.policy.stalled {
            let v = self.policy.stall_victim;
            if set.iter().any(|&t| t != v) {
                set.retain(|&t| t != v);
            }
        }
    }

    /// Uniform choice over the runnable set; decision 0 = keep running `me`.
    fn pick_uniform(&mut self, me: usize) -> Option<usize> {
        let mut set = self.runnable_set();
        self.filter_stalled(&mut set);
        if set.is_empty() {
            return None;
        }
        if let Some(pos) = set.iter().position(|&t| t == me) {
            set.swap(0, pos);
        }
        let i = self.choose(set.len() as u64) as usize;
        Some(set[i])
    }

    fn in_flight(&self, me: usize, me_kind: YieldKind) -> u64 {
        let mut n = 0;
        for (i, w) in self.pools[self.active].workers.iter().enumerate() {
            let k = if i == me { Some(me_kind) } else { w.parked_at };
            if matches!(k, Some(YieldKind::Hook | YieldKind::Bb | YieldKind::BbRare | YieldKind::Blocked | YieldKind::Atomic)) {
                n += 1;
            }
        }
        n
    }
}

impl Sim {
    pub fn new(cfg: SimConfig, seed: u64, replay: Option<Vec<u32>>) -> Arc<Sim> {
        let pools = cfg
            .pool_sizes
            .iter()
            .map(|_| Pool {
                workers: vec![],
                injector: VecDeque::new(),
            })
            .collect();
        let watchdog_s = cfg.watchdog_s;
        crate::clock::reset();
        let sim = Arc::new(Sim {
            watchdog_s,
            inner: Mutex::new(Inner {
                cfg,
                rng: Rng::new(seed),
                replay,
                replay_pos: 0,
                log: vec![],
                pools,
                active: 0,
                current: DRIVER,
                driver_wait: None,
                driver_futex: None,
                driver_futex_timeout: false,
                driver_yielded: false,
                driver_looks: 0,
                known_tids: thread_ids(),
                workers_registered: 0,
                finished_jobs: Default::default(),
                next_job_id: 1,
                policy: Policy {
                    gap: 0,
                    step: 0,
                    pct_points: vec![],
                    pct_low: 0,
                    stall_victim: 0,
                    stall_at: 0,
                    stalled: false,
                    stall_done: false,
                    stall_began: 0,
                    run_streak: 0,
                    rare_shift: 0,
                    susp_shift: 3,
                    clock_drift_ns: 0,
                    clock_jump_at: u64::MAX,
                    clock_jump_ns: 0,
                },
                stats: Stats::default(),
                op: OpTrace {
                    hash: 0xcbf29ce484222325,
                    shape: 0xcbf29ce484222325,
                    leaves: 0,
                    completed_max: -1,
                },
                op_hashes: vec![],
                shutdown: false,
                detached: 0,
            }),
            driver_parker: Arc::new(Parker::new()),
            progress: AtomicU64::new(0),
            blocked: AtomicBool::new(false),
            hooks_live: AtomicBool::new(false),
            hooks_passed: AtomicU64::new(0),
            bb_passed: AtomicU64::new(0),
            futex_wakes_at_start: FUTEX_WAKES.load(Ordering::Relaxed),
        });
        bbguard::set_sim_callback(Some(bb_callback));
        bbguard::set_mode(bbguard::MODE_OFF);
        bbguard::reset_profile();
        sim
    }

    /// Install this simulation for the calling (driver) thread. Every rayon
    /// call made by this thread until `uninstall` is simulated.
    pub fn install(self: &Arc<Sim>) {
        CURRENT.with(|c| *c.borrow_mut() = Some((self.clone(), 0, DRIVER)));
        crate::clock::set_thread_sim_time(true);
        // the main thread of the simulated program takes part in the guards too (only so that it
        // cannot spin for ever on something a preempted worker has to finish, see `bb_callback`)
        if std::env::var_os("SIM_NO_DRIVER_GUARDS").is_none() {
            bbguard::set_thread_worker(true);
        }
    }

    pub fn uninstall() {
        CURRENT.with(|c| *c.borrow_mut() = None);
        crate::clock::set_thread_sim_time(false);
        bbguard::set_thread_worker(false);
    }

    fn lock(&self) -> G<'_> {
        bbguard::enter_internal();
        G(Some(self.inner.lock().unwrap_or_else(|e| e.into_inner())))
    }

    /// Preempt at basic-block guards during subsequent operations (needs an instrumented library).
    pub fn set_preempt_bb(self: &Arc<Sim>, on: bool) {
        let mut g = self.lock();
        let live = on && g.cfg.pool_sizes[g.active].max(1) > 1 && g.cfg.sched != SchedMode::Seq;
        g.cfg.preempt_bb = live;
        bbguard::set_mode(if live { bbguard::MODE_SIM } else { bbguard::MODE_OFF });
    }

    /// Select the pool used by subsequent operations (driver only).
    pub fn set_pool(self: &Arc<Sim>, idx: usize) {
        let mut g = self.lock();
        assert!(idx < g.pools.len());
        if g.active != idx {
            g.stats.pool_switches += 1;
        }
        g.active = idx;
    }

    /// Replace the scheduling / splitting modes for subsequent operations.
    pub fn set_modes(self: &Arc<Sim>, split: SplitMode, sched: SchedMode, preempt_hooks: bool) {
        let mut g = self.lock();
        g.cfg.split = split;
        g.cfg.sched = sched;
        g.cfg.preempt_hooks = preempt_hooks;
        let live = preempt_hooks && g.cfg.pool_sizes[g.active].max(1) > 1 && sched != SchedMode::Seq && sched != SchedMode::Rev;
        self.hooks_live.store(live, Ordering::Relaxed);
    }

    pub fn stats(&self) -> Stats {
        let mut st = self.lock().stats.clone();
        let passed = self.hooks_passed.load(Ordering::Relaxed);
        st.hook_yields += passed;
        st.yields += passed;
        st.bb_guards_passed = self.bb_passed.load(Ordering::Relaxed);
        st.futex_wakes = FUTEX_WAKES.load(Ordering::Relaxed).saturating_sub(self.futex_wakes_at_start);
        st
    }

    pub fn decisions(&self) -> Vec<u32> {
        self.lock().log.clone()
    }

    pub fn decisions_len(&self) -> usize {
        self.lock().log.len()
    }

    /// (interleaving hash, split-shape hash, leaves) of every completed root operation.
    pub fn op_hashes(&self) -> Vec<(u64, u64, u64)> {
        self.lock().op_hashes.clone()
    }

    pub fn was_blocked(&self) -> bool {
        self.blocked.load(Ordering::SeqCst)
    }

    fn ensure_workers(self: &Arc<Sim>) {
        let mut g = self.lock();
        let a = g.active;
        let want = g.cfg.pool_sizes[a].max(1);
        if g.pools[a].workers.iter().filter(|w| !w.foreign).count() == want {
            return;
        }
        // (adopted threads are only ever appended after the workers of their pool exist)
        assert!(g.pools[a].workers.is_empty());
        let mut prios: Vec<i64> = (1..=want as i64).collect();
        // Priorities are re-drawn per op in PCT mode; start with identity.
        prios.reverse();
        for idx in 0..want {
            let parker = Arc::new(Parker::new());
            let sim = self.clone();
            let p2 = parker.clone();
            let pool_idx = a;
            let handle = thread::Builder::new()
                .name(format!("sim-worker-{}-{}", a, idx))
                .stack_size(32 << 20)
                .spawn(move || worker_main(sim, pool_idx, idx, p2))
                .expect("spawn sim worker");
            g.pools[a].workers.push(Worker {
                parker,
                deque: VecDeque::new(),
                broadcasts: VecDeque::new(),
                status: Status::Idle,
                parked_at: Some(YieldKind::Idle),
                depth: 0,
                priority: prios[idx],
                handle: Some(handle),
                ran_anything: false,
                futex: None,
                futex_timeout: false,
                suspend_until: 0,
                foreign: false,
                exit_flag: Arc::new(AtomicU8::new(FUTEX_WAITING)),
            });
        }
        // wait until every new worker has told its thread id (it does so first thing): from here on
        // a thread id that is not known belongs to a thread the simulator does not own
        drop(g);
        // (inside the simulator: this wait takes real time and must not count as scheduling steps)
        let _i = InternalSection::new();
        loop {
            let g = self.lock();
            let have = g.workers_registered;
            let need: usize = g.pools.iter().map(|p| p.workers.iter().filter(|w| !w.foreign).count()).sum();
            drop(g);
            if have >= need {
                break;
            }
            unsafe {
                crate::sys::raw6(libc::SYS_sched_yield, 0, 0, 0, 0, 0, 0);
            }
        }
    }

    // ---- token passing ---------------------------------------------------

    fn parker_of(&self, g: &Inner, t: usize) -> Arc<Parker> {
        if t == DRIVER {
            self.driver_parker.clone()
        } else {
            g.pools[g.active].workers[t].parker.clone()
        }
    }

    /// Hand the token from `me` to `next` and park until it comes back.
    fn handoff(self: &Arc<Sim>, mut g: G<'_>, me: usize, kind: YieldKind, next: usize) {
        debug_assert!(me != next);
        if std::env::var_os("SIM_DEBUG").is_some() {
            let a = g.active;
            let st: Vec<String> = g.pools[a].workers.iter().map(|w| format!("{:?}/{:?}/d{}", w.status, w.parked_at, w.deque.len())).collect();
            eprintln!("handoff {} -> {} kind {:?} workers {:?} driver_wait {:?}", me as isize, next as isize, kind, st, g.driver_wait);
        }
        g.current = next;
        g.stats.context_switches += 1;
        if me != DRIVER {
            let a = g.active;
            g.pools[a].workers[me].parked_at = Some(kind);
        }
        let np = self.parker_of(&g, next);
        let mp = self.parker_of(&g, me);
        drop(g);
        np.release();
        if kind == YieldKind::Exit {
            // this thread leaves the simulation; it never asks for the token again
            return;
        }
        self.park(me, &mp);
    }

    fn park(self: &Arc<Sim>, me: usize, mp: &Parker) {
        // the harness' own waiting and its watchdog run on real time
        let _i = InternalSection::new();
        let sim_time = crate::clock::set_thread_sim_time(false);
        self.park_real(me, mp);
        crate::clock::set_thread_sim_time(sim_time);
    }

    fn park_real(self: &Arc<Sim>, me: usize, mp: &Parker) {
        let mut last = self.progress.load(Ordering::SeqCst);
        let mut since = Instant::now();
        let mut first_since = since;
        let mut cpu_at_since = process_cpu_ns();
        loop {
            if mp.try_take() {
                break;
            }
            mp.wait_ms(200);
            if me == DRIVER {
                let p = self.progress.load(Ordering::SeqCst);
                if p != last {
                    last = p;
                    since = Instant::now();
                    cpu_at_since = process_cpu_ns();
                    first_since = since;
                } else if since.elapsed() > Duration::from_secs(self.watchdog_s) {
                    // No scheduling point for a while. A thread that waits for a real lock held by a
                    // parked thread sleeps; a thread that is simply busy (a long stretch of a changed
                    // tree's own code between two scheduling points: a whole chunk of cells inside one
                    // spawned task, hooks and guards off) burns CPU. Only the first is "blocked"; the
                    // second gets more time, up to 15 watchdog periods in all (a spin loop on a flag
                    // that a parked thread would have to set burns CPU for ever).
                    let cpu = process_cpu_ns();
                    let busy = (cpu.saturating_sub(cpu_at_since)) as u128 * 4 >= since.elapsed().as_nanos();
                    if busy && first_since.elapsed() < Duration::from_secs(self.watchdog_s.saturating_mul(15)) {
                        since = Instant::now();
                        cpu_at_since = cpu;
                    } else {
                        self.blocked.store(true, Ordering::SeqCst);
                        on_blocked();
                    }
                }
            }
        }
        if me != DRIVER {
            let mut g = self.lock();
            let a = current_pool();
            g.pools[a].workers[me].parked_at = None;
        }
    }

    /// The scheduler. Called by the token holder `me` at a yield point.
    fn yield_point(self: &Arc<Sim>, me: usize, kind: YieldKind) {
        let _i = InternalSection::new();
        self.progress.fetch_add(1, Ordering::Relaxed);
        let mut g = self.lock();
        if g.shutdown || (me != DRIVER && kind != YieldKind::Exit && current_pool() != g.active) {
            // the simulation is being torn down (all threads were released at once), or this is a
            // left-over of an earlier operation on another pool: nothing to schedule
            return;
        }
        debug_assert_eq!(g.current, me, "yield from a thread that does not hold the token");
        g.stats.yields += 1;
        g.stats.scheduler_steps += 1;
        match kind {
            YieldKind::SpinYield => g.stats.spin_yields += 1,
            YieldKind::Hook => g.stats.hook_yields += 1,
            YieldKind::Bb => g.stats.bb_yields += 1,
            YieldKind::BbRare => g.stats.bb_rare_yields += 1,
            YieldKind::Atomic => g.stats.atomic_yields += 1,
            _ => {}
        }
        if std::env::var("SIM_DEBUG").map_or(false, |v| v == "2") {
            eprintln!("yield {} {:?} step {} dec {} runnable {:?}", me as isize, kind, g.policy.step, g.log.len(), g.runnable_set().iter().map(|t| *t as isize).collect::<Vec<_>>());
        }
        let forced = matches!(kind, YieldKind::Wait | YieldKind::Idle | YieldKind::Blocked | YieldKind::Exit);
        let boundary = matches!(
            kind,
            YieldKind::JobStart
                | YieldKind::JoinPush
                | YieldKind::JobEnd
                | YieldKind::LeafEnd
                | YieldKind::Shared
                | YieldKind::BbRare
                | YieldKind::Sleep
                | YieldKind::Atomic
        );
        g.policy.step += 1;
        // clock seam: time passes at scheduling points, by the plan of this operation
        if g.policy.clock_drift_ns > 0 {
            let d = g.policy.clock_drift_ns;
            crate::clock::advance_ns(d as i64);
            g.stats.clock_ns_added += d;
        }
        if g.policy.step == g.policy.clock_jump_at {
            let j = g.policy.clock_jump_ns;
            crate::clock::advance_ns(j as i64);
            g.stats.clock_jumps += 1;
            g.stats.clock_ns_added += j;
        }
        if me == DRIVER && kind == YieldKind::SpinYield {
            // the simulated program's main thread spins politely on something a worker has to do
            let others: Vec<usize> = g.runnable_set().into_iter().filter(|&t| t != DRIVER).collect();
            if others.is_empty() {
                return;
            }
            let i = g.choose(others.len() as u64) as usize;
            g.driver_yielded = true;
            self.handoff(g, me, kind, others[i]);
            self.lock().driver_yielded = false;
            return;
        }
        let k = g.k();
        if g.policy.stalled && g.policy.step.saturating_sub(g.policy.stall_began) > 4000 {
            g.policy.stalled = false;
            g.policy.stall_done = true;
        }

        if !forced {
            if kind == YieldKind::Hook && !g.cfg.preempt_hooks {
                return;
            }
            if matches!(kind, YieldKind::Bb | YieldKind::BbRare | YieldKind::Atomic) && !g.cfg.preempt_bb {
                return;
            }
            if k <= 1 {
                return;
            }
        }

        // A rarely executed site is where a narrow window is, if there is one: now and then the
        // thread is descheduled right there for 32 .. 16384 scheduler steps (whatever the mode); how often
        // is drawn per operation (one rare site in 2 .. 128).
        let mut suspended_to: Option<usize> = None;
        let ssh = if kind == YieldKind::Atomic { g.policy.susp_shift.saturating_sub(1).max(1) } else { g.policy.susp_shift };
        if matches!(kind, YieldKind::BbRare | YieldKind::Atomic) && g.choose(1 << ssh) == 0 {
            let others: Vec<usize> = g.runnable_set().into_iter().filter(|&t| t != me && t != DRIVER).collect();
            if !others.is_empty() {
                let e = 5 + g.choose(10);
                let until = g.policy.step + (1u64 << e);
                let a = g.active;
                g.pools[a].workers[me].suspend_until = until;
                g.stats.rare_site_suspensions += 1;
                let i = g.choose(others.len() as u64) as usize;
                suspended_to = Some(others[i]);
            }
        }

        // Decide who runs next. `None` = keep running.
        let next: Option<usize> = if let Some(t) = suspended_to {
            Some(t)
        } else if forced {
            let mut waited_ms = 0u64;
            let mut set = loop {
                let mut set = g.runnable_set();
                g.filter_stalled(&mut set);
                if kind == YieldKind::Blocked {
                    // somebody else has to run for this wait to end; only when nobody can and the
                    // wait may end by itself (timeout, or woken meanwhile) does the waiter go on
                    if set.iter().any(|&t| t != me) {
                        set.retain(|&t| t != me);
                    } else if !set.is_empty() {
                        return;
                    }
                }
                if !set.is_empty() {
                    break set;
                }
                let a = g.active;
                if g.pools[a].workers.iter().any(|w| w.suspend_until > g.policy.step) {
                    // everybody who could run is descheduled: the suspensions end here
                    for w in g.pools[a].workers.iter_mut() {
                        w.suspend_until = 0;
                    }
                    continue;
                }
                let waiting_on_futex =
                    g.pools[a].workers.iter().filter(|w| w.futex.is_some()).count() + g.driver_futex.is_some() as usize;
                // Order matters: first look for threads the simulator does not know, then look again
                // whether anybody became runnable. A thread that is gone by the time of the first look
                // has delivered all its wake-ups before, so the second look sees them.
                let unknown_threads = thread_ids().iter().any(|t| *t == u64::MAX || !g.known_tids.contains(t));
                {
                    let mut again = g.runnable_set();
                    g.filter_stalled(&mut again);
                    if !again.is_empty() {
                        continue;
                    }
                }
                let limit_ms = g.cfg.watchdog_s.saturating_mul(1000);
                drop(g);
                if waiting_on_futex == 0 {
                    sim_fatal("no runnable thread although nobody waits on a futex");
                }
                // Every simulated thread waits on a futex. If the process has no thread the simulator
                // does not know, nobody is left to wake them: a deadlock of the simulated program, for
                // certain. Otherwise such a thread may still do it: wait (real time), and give up
                // without a verdict when the watchdog's time is over.
                if !unknown_threads {
                    on_deadlock(waiting_on_futex);
                }
                if waited_ms >= limit_ms {
                    self.blocked.store(true, Ordering::SeqCst);
                    on_blocked();
                }
                thread::sleep(Duration::from_millis(2));
                waited_ms += 2;
                g = self.lock();
            };
            if g.cfg.sched == SchedMode::Pct && set.iter().any(|&t| t != DRIVER) {
                let a = g.active;
                set.iter()
                    .copied()
                    .filter(|&t| t != DRIVER)
                    .max_by_key(|&t| g.pools[a].workers[t].priority)
            } else {
                if let Some(pos) = set.iter().position(|&t| t == me) {
                    set.swap(0, pos);
                }
                let i = g.choose(set.len() as u64) as usize;
                Some(set[i])
            }
        } else {
            match g.cfg.sched {
                SchedMode::Seq => None,
                SchedMode::Rev => {
                    if kind != YieldKind::JoinPush {
                        None
                    } else {
                        // hand over to a worker that is not in the middle of
                        // something, so that it steals what was just pushed
                        let a = g.active;
                        (0..k).find(|&t| {
                            t != me && g.pools[a].workers[t].status == Status::Idle && g.runnable(t)
                        })
                    }
                }
                SchedMode::LeafRandom => {
                    if !boundary {
                        None
                    } else {
                        g.pick_uniform(me)
                    }
                }
                SchedMode::Interleave => {
                    if g.policy.gap == u32::MAX && !boundary {
                        None
                    } else if g.policy.gap != u32::MAX && g.policy.gap > 0 {
                        g.policy.gap -= 1;
                        None
                    } else {
                        g.policy.gap = g.draw_gap();
                        g.pick_uniform(me)
                    }
                }
                SchedMode::Pct => {
                    let step = g.policy.step;
                    // priority-change points: the drawn steps, and - one time in three - a rarely
                    // executed site (the place where a narrow window is, if there is one)
                    let sh = g.policy.rare_shift;
                    let sh = if kind == YieldKind::Atomic { sh.saturating_sub(1).max(1) } else { sh };
                    let at_rare_site = matches!(kind, YieldKind::BbRare | YieldKind::Atomic) && g.choose(1 << sh) == 0;
                    if g.policy.pct_points.contains(&step) || at_rare_site {
                        g.policy.pct_low -= 1;
                        let low = g.policy.pct_low;
                        let a = g.active;
                        g.pools[a].workers[me].priority = low;
                        g.stats.pct_changes += 1;
                    }
                    let set = g.runnable_set();
                    let a = g.active;
                    set.iter()
                        .copied()
                        .filter(|&t| t != DRIVER)
                        .max_by_key(|&t| g.pools[a].workers[t].priority)
                }
                SchedMode::Stall => {
                    // the stall begins at the drawn step of the drawn victim, or - one time in three - for
                    // whoever reaches a rarely executed site first
                    let sh = g.policy.rare_shift;
                    let sh = if kind == YieldKind::Atomic { sh.saturating_sub(1).max(1) } else { sh };
                    if matches!(kind, YieldKind::BbRare | YieldKind::Atomic) && !g.policy.stall_done && !g.policy.stalled && g.choose(1 << sh) == 0 {
                        g.policy.stall_victim = me;
                        g.policy.stall_at = 0;
                    }
                    let p = &g.policy;
                    if !p.stall_done
                        && !p.stalled
                        && me == p.stall_victim
                        && p.step >= p.stall_at
                        && matches!(kind, YieldKind::Item | YieldKind::Hook | YieldKind::Bb | YieldKind::BbRare | YieldKind::Atomic)
                    {
                        let others: Vec<usize> =
                            g.runnable_set().into_iter().filter(|&t| t != me && t != DRIVER).collect();
                        if others.is_empty() {
                            None
                        } else {
                            g.policy.stalled = true;
                            g.policy.stall_began = g.policy.step;
                            g.stats.stalls += 1;
                            let i = g.choose(others.len() as u64) as usize;
                            Some(others[i])
                        }
                    } else if !boundary {
                        None
                    } else {
                        g.pick_uniform(me)
                    }
                }
            }
        };

        let next = match next {
            Some(n) if n != me => n,
            _ if !forced => {
                // the running thread goes on - unless it has done so for very long while others could
                // run (a spin loop), or asked to yield
                g.policy.run_streak += 1;
                if g.policy.run_streak < 1500 && kind != YieldKind::SpinYield {
                    return;
                }
                // (the driver counts when it is waiting for the token itself: it may be what the
                // spinning thread is waiting for)
                let mut others = g.runnable_set();
                others.retain(|&t| t != me);
                if others.is_empty() {
                    g.policy.run_streak = 0;
                    return;
                }
                if kind != YieldKind::SpinYield {
                    g.stats.fairness_switches += 1;
                }
                if g.cfg.sched == SchedMode::Pct {
                    g.policy.pct_low -= 1;
                    let low = g.policy.pct_low;
                    let a = g.active;
                    g.pools[a].workers[me].priority = low;
                }
                let i = g.choose(others.len() as u64) as usize;
                others[i]
            }
            _ => return,
        };
        g.policy.run_streak = 0;
        match kind {
            YieldKind::Item => g.stats.preempt_item += 1,
            YieldKind::Hook => g.stats.preempt_hook += 1,
            YieldKind::JoinPush => g.stats.preempt_join += 1,
            YieldKind::Bb => g.stats.preempt_bb += 1,
            YieldKind::BbRare => g.stats.preempt_bb_rare += 1,
            YieldKind::Atomic => g.stats.preempt_atomic += 1,
            _ => {}
        }
        let inf = g.in_flight(me, kind);
        g.stats.max_in_flight = g.stats.max_in_flight.max(inf);
        let was_stall_victim = g.policy.stalled && me == g.policy.stall_victim && !forced;
        self.handoff(g, me, kind, next);
        if was_stall_victim {
            // resumed: everything else has drained
            let mut g = self.lock();
            g.policy.stalled = false;
            g.policy.stall_done = true;
        }
    }

    // ---- operations ------------------------------------------------------

    fn begin_root_op(self: &Arc<Sim>) {
        let mut g = self.lock();
        g.stats.ops += 1;
        g.op = OpTrace {
            hash: 0xcbf29ce484222325,
            shape: 0xcbf29ce484222325,
            leaves: 0,
            completed_max: -1,
        };
        g.policy.step = 0;
        {
            let a = g.active;
            for w in g.pools[a].workers.iter_mut() {
                w.suspend_until = 0;
            }
        }
        g.policy.stalled = false;
        g.policy.stall_done = false;
        // clock plan: mostly none; steady drift; or one jump somewhere in the operation
        g.policy.clock_drift_ns = 0;
        g.policy.clock_jump_at = u64::MAX;
        g.policy.clock_jump_ns = 0;
        match g.choose(8) {
            5 => {
                let e = g.choose(5);
                g.policy.clock_drift_ns = [1_000u64, 20_000, 300_000, 5_000_000, 100_000_000][e as usize];
                g.stats.clock_drift_ops += 1;
            }
            6 | 7 => {
                let at = 1 + g.choose(600);
                let e = g.choose(5);
                g.policy.clock_jump_at = at;
                g.policy.clock_jump_ns = [10_000_000u64, 300_000_000, 3_000_000_000, 30_000_000_000, 3_600_000_000_000][e as usize];
            }
            _ => {}
        }
        if g.cfg.preempt_bb {
            // rare-site selection of this operation: a salt made of two decisions (0 = none)
            let salt = if g.choose(4) == 0 {
                0
            } else {
                let hi = g.choose(1 << 31);
                let lo = g.choose(1 << 31);
                (hi << 31) | lo
            };
            bbguard::set_salt(salt);
            bbguard::reset_hits();
            g.policy.rare_shift = g.choose(7) as u32 + 1;
            g.policy.susp_shift = g.choose(7) as u32 + 1;
        }
        let k = g.k() as u64;
        match g.cfg.sched {
            SchedMode::Interleave => {
                g.policy.gap = g.draw_gap();
            }
            SchedMode::Pct => {
                // random distinct priorities
                let mut pr: Vec<i64> = (1..=k as i64).collect();
                for i in (1..pr.len()).rev() {
                    let j = g.choose(i as u64 + 1) as usize;
                    pr.swap(i, j);
                }
                let a = g.active;
                for (w, p) in g.pools[a].workers.iter_mut().zip(pr) {
                    w.priority = p;
                }
                g.policy.pct_low = 0;
                let d = g.cfg.pct_depth;
                g.policy.pct_points.clear();
                for _ in 0..d {
                    let s = 1 + g.choose(4096);
                    g.policy.pct_points.push(s);
                }
            }
            SchedMode::Stall => {
                g.policy.stall_victim = g.choose(k) as usize;
                g.policy.stall_at = g.choose(512);
            }
            _ => {}
        }
    }

    fn end_root_op(self: &Arc<Sim>) {
        let mut g = self.lock();
        if thread_ids().iter().any(|t| *t != u64::MAX && !g.known_tids.contains(t)) {
            g.stats.ops_with_outside_threads += 1;
        }
        let t = (g.op.hash, g.op.shape, g.op.leaves);
        g.stats.max_leaves_per_op = g.stats.max_leaves_per_op.max(g.op.leaves);
        let used = g.pools[g.active].workers.iter().filter(|w| w.ran_anything).count() as u64;
        g.stats.workers_used_max = g.stats.workers_used_max.max(used);
        g.op_hashes.push(t);
        g.finished_jobs.clear();
    }

    /// Run `f` on a worker of the active pool; the driver parks meanwhile.
    fn in_worker_cold<F, R>(self: &Arc<Sim>, f: F) -> R
    where
        F: FnOnce() -> R + Send,
        R: Send,
    {
        self.ensure_workers();
        self.begin_root_op();
        let job = StackJob::new(move |_migrated: bool| f());
        let id;
        {
            let mut g = self.lock();
            id = g.next_job_id;
            g.next_job_id += 1;
            let jr = job.job_ref(id, usize::MAX);
            g.pool().injector.push_back(jr);
            g.stats.injected += 1;
            g.driver_wait = Some(id);
        }
        // forced yield: the driver cannot continue until the job is done
        loop {
            let done = { self.lock().job_done(id) };
            if done {
                break;
            }
            self.yield_point(DRIVER, YieldKind::Wait);
        }
        {
            let mut g = self.lock();
            g.driver_wait = None;
        }
        self.end_root_op();
        match job.take_result() {
            Ok(r) => r,
            Err(p) => panic::resume_unwind(p),
        }
    }

    fn execute(self: &Arc<Sim>, me: usize, jr: JobRef) {
        {
            let mut g = self.lock();
            let a = current_pool();
            let w = &mut g.pools[a].workers[me];
            w.depth += 1;
            w.ran_anything = true;
            if w.depth > 1 {
                g.stats.reentrant_steals += 1;
            }
        }
        self.yield_point(me, YieldKind::JobStart);
        // the first guard of a job consults the scheduler (which then draws the countdown)
        bbguard::set_skip(0);
        let migrated = jr.origin != me && jr.origin != usize::MAX;
        unsafe { (jr.exec)(jr.data, migrated) };
        {
            let mut g = self.lock();
            g.finished_jobs.insert(jr.id);
            let a = current_pool();
            g.pools[a].workers[me].depth -= 1;
        }
        self.yield_point(me, YieldKind::JobEnd);
    }

    /// Find a job for worker `me` (own deque first when `own`), or None.
    fn find_work(self: &Arc<Sim>, me: usize, own: bool) -> Option<JobRef> {
        let mut g = self.lock();
        let a = current_pool();
        if own {
            if let Some(j) = g.pools[a].workers[me].deque.pop_back() {
                return Some(j);
            }
        }
        // sources: injector, other deques, the broadcast jobs addressed to this worker. (The real
        // pool looks at its broadcast queue before it steals, but a broadcast reaches the workers one
        // after the other and a worker may have looked just before: "steals although a broadcast job
        // is waiting for it" is a legal order, so the choice is the scheduler's.)
        let mut src: Vec<usize> = vec![];
        if !g.pools[a].injector.is_empty() {
            src.push(usize::MAX);
        }
        if !g.pools[a].workers[me].broadcasts.is_empty() {
            src.push(usize::MAX - 1);
        }
        for (i, w) in g.pools[a].workers.iter().enumerate() {
            if i != me && !w.deque.is_empty() {
                src.push(i);
            }
        }
        if src.is_empty() {
            return None;
        }
        let i = g.choose(src.len() as u64) as usize;
        let s = src[i];
        let j = if s == usize::MAX {
            g.pools[a].injector.pop_front()
        } else if s == usize::MAX - 1 {
            g.pools[a].workers[me].broadcasts.pop_front()
        } else {
            g.stats.steals += 1;
            g.pools[a].workers[s].deque.pop_front()
        };
        j
    }

    fn join_impl<A, B, RA, RB>(self: &Arc<Sim>, me: usize, a: A, b: B) -> (RA, RB)
    where
        A: FnOnce(bool) -> RA + Send,
        B: FnOnce(bool) -> RB + Send,
        RA: Send,
        RB: Send,
    {
        let job_b = StackJob::new(b);
        let id;
        {
            let mut g = self.lock();
            id = g.next_job_id;
            g.next_job_id += 1;
            g.stats.joins += 1;
            let jr = job_b.job_ref(id, me);
            let ac = current_pool();
            g.pools[ac].workers[me].deque.push_back(jr);
        }
        self.yield_point(me, YieldKind::JoinPush);
        let ra = panic::catch_unwind(AssertUnwindSafe(|| a(false)));
        // Now get b done: pop it back if it is still ours, else wait for the thief.
        loop {
            if job_b.done.load(Ordering::SeqCst) {
                break;
            }
            let popped = {
                let mut g = self.lock();
                let ac = current_pool();
                g.pools[ac].workers[me].deque.pop_back()
            };
            match popped {
                Some(j) if j.id == id => {
                    // not stolen: run inline (not migrated)
                    unsafe { (j.exec)(j.data, false) };
                    let mut g = self.lock();
                    g.finished_jobs.insert(id);
                    break;
                }
                Some(j) => {
                    // some other local job (e.g. spawned in a scope): run it
                    self.execute(me, j);
                }
                None => {
                    // stolen: wait, stealing other work meanwhile
                    {
                        let mut g = self.lock();
                        let ac = current_pool();
                        g.pools[ac].workers[me].status = Status::Waiting(id);
                    }
                    loop {
                        let done = job_b.done.load(Ordering::SeqCst);
                        if done {
                            break;
                        }
                        self.yield_point(me, YieldKind::Wait);
                        if job_b.done.load(Ordering::SeqCst) {
                            break;
                        }
                        if let Some(j) = self.find_work(me, true) {
                            {
                                let mut g = self.lock();
                                let ac = current_pool();
                                g.pools[ac].workers[me].status = Status::Running;
                            }
                            self.execute(me, j);
                            let mut g = self.lock();
                            let ac = current_pool();
                            g.pools[ac].workers[me].status = Status::Waiting(id);
                        }
                    }
                    let mut g = self.lock();
                    let ac = current_pool();
                    g.pools[ac].workers[me].status = Status::Running;
                    break;
                }
            }
        }
        let rb = job_b.take_result();
        match (ra, rb) {
            (Ok(ra), Ok(rb)) => (ra, rb),
            (Err(p), _) => panic::resume_unwind(p),
            (_, Err(p)) => panic::resume_unwind(p),
        }
    }
}

/// CPU time consumed by the whole process so far (all threads), in nanoseconds.
fn process_cpu_ns() -> u64 {
    let mut ts = libc::timespec { tv_sec: 0, tv_nsec: 0 };
    unsafe {
        crate::sys::raw_syscall(libc::SYS_clock_gettime, libc::CLOCK_PROCESS_CPUTIME_ID, &mut ts as *mut libc::timespec);
    }
    ts.tv_sec as u64 * 1_000_000_000 + ts.tv_nsec as u64
}

fn on_blocked() -> ! {
    // Workers may be blocked on a real lock held by a parked thread; there is
    // no way to unwind them. Report and leave.
    println!("INCONCLUSIVE blocked: simulated program did not reach a scheduling point (real lock held across a yield?)");
    use std::io::Write;
    let _ = std::io::stdout().flush();
    std::process::exit(EXIT_BLOCKED);
}

/// Kernel thread ids of this process (a listing that cannot be read counts as "somebody unknown").
fn thread_ids() -> std::collections::BTreeSet<u64> {
    match std::fs::read_dir("/proc/self/task") {
        Ok(d) => d.filter_map(|e| e.ok().and_then(|e| e.file_name().to_str().and_then(|s| s.parse().ok()))).collect(),
        Err(_) => [u64::MAX].into_iter().collect(),
    }
}

/// Exit code for an inconsistency of the simulator itself (a harness error, never a verdict).
pub const EXIT_SIM_FATAL: i32 = 5;

pub(crate) fn sim_fatal(msg: &str) -> ! {
    println!("SIM-FATAL {}", msg);
    eprintln!("SIM-FATAL {}", msg);
    use std::io::Write;
    let _ = std::io::stdout().flush();
    std::process::exit(EXIT_SIM_FATAL);
}

/// Exit code of a simulated process in which every thread waits on a futex for good.
pub const EXIT_DEADLOCK: i32 = 4;

fn on_deadlock(waiting: usize) -> ! {
    println!(
        "E1-DEADLOCK every runnable thread of the simulated program waits on a futex (lock, condvar, channel): {} waiters, and the process has no other thread that could wake one",
        waiting
    );
    use std::io::Write;
    let _ = std::io::stdout().flush();
    std::process::exit(EXIT_DEADLOCK);
}

fn worker_main(sim: Arc<Sim>, pool_idx: usize, idx: usize, parker: Arc<Parker>) {
    CURRENT.with(|c| *c.borrow_mut() = Some((sim.clone(), pool_idx, idx)));
    crate::clock::set_thread_sim_time(true);
    bbguard::set_thread_worker(true);
    {
        let tid = unsafe { crate::sys::raw6(libc::SYS_gettid, 0, 0, 0, 0, 0, 0) } as u64;
        let mut g = sim.lock();
        g.known_tids.insert(tid);
        g.workers_registered += 1;
    }
    // wait for the first token
    sim.park_worker_initial(&parker);
    // user panics are caught where jobs run; anything that unwinds up to here is a bug of the simulator
    let r = panic::catch_unwind(AssertUnwindSafe(|| worker_loop(&sim, idx)));
    if let Err(p) = r {
        let msg = p.downcast_ref::<&str>().map(|s| s.to_string()).or_else(|| p.downcast_ref::<String>().cloned()).unwrap_or_default();
        sim_fatal(&format!("worker {} of pool {} unwound out of the scheduler: {}", idx, pool_idx, msg));
    }
}

fn worker_loop(sim: &Arc<Sim>, idx: usize) {
    loop {
        if sim.lock().shutdown {
            return;
        }
        match sim.find_work(idx, true) {
            Some(j) => {
                {
                    let mut g = sim.lock();
                    let a = current_pool();
                    g.pools[a].workers[idx].status = Status::Running;
                }
                sim.execute(idx, j);
                let mut g = sim.lock();
                if g.shutdown {
                    return;
                }
                let a = current_pool();
                g.pools[a].workers[idx].status = Status::Idle;
            }
            None => {
                sim.yield_point(idx, YieldKind::Idle);
            }
        }
    }
}

impl Sim {
    fn park_worker_initial(self: &Arc<Sim>, parker: &Parker) {
        let _i = InternalSection::new();
        let sim_time = crate::clock::set_thread_sim_time(false);
        loop {
            if parker.try_take() {
                break;
            }
            parker.wait_ms(200);
        }
        crate::clock::set_thread_sim_time(sim_time);
        let me = current().map(|c| c.1).unwrap();
        let mut g = self.lock();
        if g.shutdown {
            return;
        }
        let a = current_pool();
        g.pools[a].workers[me].parked_at = None;
    }

    /// Stop all workers (driver only). The simulation cannot be used afterwards.
    pub fn shutdown(self: &Arc<Sim>) {
        bbguard::set_mode(bbguard::MODE_OFF);
        {
            // adopted threads that are still around run free from here on
            let g = self.lock();
            let ps: Vec<Arc<Parker>> = g.pools.iter().flat_map(|p| p.workers.iter().filter(|w| w.foreign).map(|w| w.parker.clone())).collect();
            drop(g);
            self.lock().shutdown = true;
            for p in ps {
                p.release();
            }
        }
        let handles: Vec<(Arc<Parker>, JoinHandle<()>)> = {
            let mut g = self.lock();
            g.shutdown = true;
            let mut v = vec![];
            for p in g.pools.iter_mut() {
                for w in p.workers.iter_mut() {
                    if let Some(h) = w.handle.take() {
                        v.push((w.parker.clone(), h));
                    }
                }
            }
            v
        };
        for (p, h) in handles {
            p.release();
            let _ = h.join();
        }
    }
}

// ---------------------------------------------------------------------------
// Public (crate) entry points used by the iterator layer and the rayon API
// ---------------------------------------------------------------------------

/// Hook site at the entry of the library's exact in-sphere predicate.
pub const SITE_EXACT_PREDICATE: u32 = 10;
static EXACT_PREDICATE_CALLS: AtomicU64 = AtomicU64::new(0);

/// Calls of the exact predicate made by simulated workers since process start.
pub fn exact_predicate_calls() -> u64 {
    EXACT_PREDICATE_CALLS.load(Ordering::Relaxed)
}

/// A point inside user code at which the scheduler may preempt
/// (target of the `sched_point` hook of the library under test).
pub fn sched_point(site: u32) {
    // hot path: no Arc clone, no lock unless the scheduler is due to look
    CURRENT.with(|c| {
        let b = c.borrow();
        let (sim, me) = match b.as_ref() {
            Some((sim, _, me)) if *me != DRIVER => (sim, *me),
            _ => return,
        };
        if site == SITE_EXACT_PREDICATE {
            // probe: the exact big-integer predicate decided something inside a simulated parallel section
            EXACT_PREDICATE_CALLS.fetch_add(1, Ordering::Relaxed);
        }
        if !sim.hooks_live.load(Ordering::Relaxed) {
            // same outcome as the slow path (no preemption), without the lock
            HOOKS_PASSED.with(|h| h.set(h.get() + 1));
            return;
        }
        // Hook sites sit in hot loops. The scheduler looks at a hook only after a
        // number of passes that it drew itself (from the decision stream, so the
        // execution stays a function of the decisions): 0, 1, 3, ... 255.
        let skip = HOOK_SKIP.with(|c| c.get());
        if skip > 0 {
            HOOK_SKIP.with(|c| c.set(skip - 1));
            HOOKS_PASSED.with(|h| h.set(h.get() + 1));
            return;
        }
        flush_hooks_passed(sim);
        sim.yield_point(me, YieldKind::Hook);
        let d = sim.lock().choose(8);
        HOOK_SKIP.with(|c| c.set([0u32, 1, 3, 7, 15, 31, 63, 255][d as usize]));
    });
}

/// Move this thread's count of cheaply passed hooks into the simulation (also
/// feeds the watchdog's progress counter).
fn flush_hooks_passed(sim: &Arc<Sim>) {
    let n = HOOKS_PASSED.with(|h| h.replace(0));
    if n > 0 {
        sim.hooks_passed.fetch_add(n, Ordering::Relaxed);
        sim.progress.fetch_add(n, Ordering::Relaxed);
    }
    let b = bbguard::take_passed();
    if b > 0 {
        sim.bb_passed.fetch_add(b, Ordering::Relaxed);
        sim.progress.fetch_add(b, Ordering::Relaxed);
    }
}

thread_local! {
    static HOOKS_PASSED: std::cell::Cell<u64> = const { std::cell::Cell::new(0) };
}

thread_local! {
    static HOOK_SKIP: std::cell::Cell<u32> = const { std::cell::Cell::new(0) };
}

/// Target of the basic-block guards (see `bbguard`): called on a worker that is not inside the
/// simulator, when its countdown ran out or at a selected rare site.
fn bb_callback(kind: u32) {
    let cur = CURRENT.try_with(|c| c.borrow().as_ref().map(|(s, _, i)| (s.clone(), *i))).ok().flatten();
    let (sim, me) = match cur {
        Some((sim, me)) if me != DRIVER => (sim, me),
        Some((sim, _)) => {
            // The driver is not scheduled at guards. But it must not spin for ever on something a
            // preempted worker has to finish (a channel slot being written, a flag): every 16th
            // look it offers the token to the workers, like a `yield_now`.
            bbguard::set_skip(1 << 12);
            let n = {
                let mut g = sim.lock();
                if g.current != DRIVER || g.shutdown || g.pools[g.active].workers.is_empty() {
                    return;
                }
                g.driver_looks += 1;
                g.driver_looks
            };
            if n % 16 == 0 {
                sim.yield_point(DRIVER, YieldKind::SpinYield);
            }
            return;
        }
        _ => {
            bbguard::set_skip(1 << 16);
            return;
        }
    };
    flush_hooks_passed(&sim);
    if std::env::var("SIM_DEBUG").map_or(false, |v| v == "2") {
        eprintln!("  cb {} kind {} last {:?}", me, kind, bbguard::debug_last());
    }
    if kind == bbguard::KIND_ATOMIC {
        sim.yield_point(me, YieldKind::Atomic);
    } else if kind == bbguard::KIND_RARE_SITE {
        sim.yield_point(me, YieldKind::BbRare);
    } else {
        sim.yield_point(me, YieldKind::Bb);
        let d = sim.lock().choose(10);
        bbguard::set_skip([0u32, 1, 3, 7, 31, 127, 511, 2047, 8191, 65535][d as usize]);
    }
}

// ---------------------------------------------------------------------------
// Emulated futex and sleep (called from the interposed system calls in `sys`)
// ---------------------------------------------------------------------------

struct FWaiter {
    addr: usize,
    flag: Arc<AtomicU8>,
}
/// The waiters parked in the simulator. A wait's "value still as expected? then enqueue" and a
/// wake's scan are critical sections of ONE lock, as in the kernel: a wake that skipped the lock
/// when the list looked empty lost wake-ups against threads outside the simulation (store
/// buffering: the waker's value store and the waiter's enqueue passed each other). The lock is a
/// spin lock so that taking it never makes a futex call itself.
struct FutexReg {
    locked: AtomicBool,
    waiters: std::cell::UnsafeCell<Vec<FWaiter>>,
}
unsafe impl Sync for FutexReg {}
struct FutexRegGuard<'a>(&'a FutexReg);
impl FutexReg {
    fn lock(&self) -> FutexRegGuard<'_> {
        let mut spins = 0u32;
        while self.locked.compare_exchange_weak(false, true, Ordering::SeqCst, Ordering::SeqCst).is_err() {
            spins += 1;
            if spins % 64 == 0 {
                unsafe {
                    crate::sys::raw6(libc::SYS_sched_yield, 0, 0, 0, 0, 0, 0);
                }
            } else {
                std::hint::spin_loop();
            }
        }
        FutexRegGuard(self)
    }
}
impl<'a> std::ops::Deref for FutexRegGuard<'a> {
    type Target = Vec<FWaiter>;
    fn deref(&self) -> &Vec<FWaiter> {
        unsafe { &*self.0.waiters.get() }
    }
}
impl<'a> std::ops::DerefMut for FutexRegGuard<'a> {
    fn deref_mut(&mut self) -> &mut Vec<FWaiter> {
        unsafe { &mut *self.0.waiters.get() }
    }
}
impl<'a> Drop for FutexRegGuard<'a> {
    fn drop(&mut self) {
        self.0.locked.store(false, Ordering::SeqCst);
    }
}
static FUTEX_REG: FutexReg = FutexReg {
    locked: AtomicBool::new(false),
    waiters: std::cell::UnsafeCell::new(Vec::new()),
};
static FUTEX_WAKES: AtomicU64 = AtomicU64::new(0);

pub(crate) enum FutexWait {
    /// Not a thread this simulation schedules: do the real system call.
    PassThrough,
    /// `*addr != expected`
    Again,
    Woken,
    TimedOut,
}

/// FUTEX_WAIT on a worker of a simulation: the worker is parked *in the simulator* until another
/// thread's FUTEX_WAKE on the address (or, for a wait with a timeout, until the scheduler lets the
/// timeout fire, which is always legal: the others were slow). `timeout_ns`: time left, if any.
///
/// # Safety
/// `addr` must point to a live, aligned `u32`.
pub(crate) unsafe fn futex_wait_emulated(addr: usize, expected: u32, timeout_ns: Option<u64>) -> FutexWait {
    let _i = InternalSection::new();
    let cur = CURRENT.try_with(|c| c.borrow().as_ref().map(|(s, _, i)| (s.clone(), *i))).ok().flatten();
    let (sim, me) = match cur {
        Some((sim, me)) => (sim, me),
        _ => return FutexWait::PassThrough,
    };
    {
        let g = sim.lock();
        if g.current != me || g.shutdown {
            // not holding the token (cannot happen for code the scheduler released); be safe
            return FutexWait::PassThrough;
        }
    }
    if me == DRIVER {
        // the simulated program's main thread blocks (say, on a channel fed by detached jobs):
        // the workers must be there to run them
        sim.ensure_workers();
    }
    let flag = Arc::new(AtomicU8::new(FUTEX_WAITING));
    {
        let mut r = FUTEX_REG.lock();
        if (*(addr as *const std::sync::atomic::AtomicU32)).load(Ordering::SeqCst) != expected {
            return FutexWait::Again;
        }
        r.push(FWaiter { addr, flag: flag.clone() });
    }
    {
        let mut g = sim.lock();
        g.stats.futex_waits += 1;
        if me == DRIVER {
            g.driver_futex = Some(flag.clone());
            g.driver_futex_timeout = timeout_ns.is_some();
        } else {
            let a = current_pool();
            g.pools[a].workers[me].futex = Some(flag.clone());
            g.pools[a].workers[me].futex_timeout = timeout_ns.is_some();
        }
    }
    flush_hooks_passed(&sim);
    sim.yield_point(me, YieldKind::Blocked);
    {
        let mut g = sim.lock();
        if me == DRIVER {
            g.driver_futex = None;
            g.driver_futex_timeout = false;
        } else {
            let a = current_pool();
            g.pools[a].workers[me].futex = None;
            g.pools[a].workers[me].futex_timeout = false;
        }
    }
    {
        let mut r = FUTEX_REG.lock();
        r.retain(|w| !Arc::ptr_eq(&w.flag, &flag));
    }
    if flag.load(Ordering::SeqCst) == FUTEX_WOKEN {
        FutexWait::Woken
    } else {
        // the timeout fired: simulated time has passed
        let ns = timeout_ns.unwrap_or(0);
        crate::clock::advance_ns(ns.min(i64::MAX as u64) as i64);
        let mut g = sim.lock();
        g.stats.futex_timeouts += 1;
        g.stats.clock_ns_added += ns;
        FutexWait::TimedOut
    }
}

/// FUTEX_WAKE from any thread of the process: releases up to `n` workers parked by
/// `futex_wait_emulated` on `addr`; returns how many (the real system call is made as well).
pub(crate) fn futex_wake_emulated(addr: usize, n: usize) -> usize {
    let _i = InternalSection::new();
    let mut r = FUTEX_REG.lock();
    if r.is_empty() {
        return 0;
    }
    let mut k = 0;
    r.retain(|w| {
        if k < n && w.addr == addr {
            w.flag.store(FUTEX_WOKEN, Ordering::SeqCst);
            k += 1;
            false
        } else {
            true
        }
    });
    FUTEX_WAKES.fetch_add(k as u64, Ordering::Relaxed);
    k
}

// ---------------------------------------------------------------------------
// Threads the program under simulation creates itself (called from the interposed
// `pthread_create` / `pthread_join` in `sys`)
// ---------------------------------------------------------------------------

/// What the trampoline of an adopted thread needs.
#[derive(Clone)]
pub(crate) struct Adopted {
    sim: Arc<Sim>,
    pool: usize,
    idx: usize,
    pub(crate) exit_flag: Arc<AtomicU8>,
}

/// Called by a simulated thread (worker, adopted thread or driver) that holds the token and is
/// about to create a thread: reserves a slot for it in the scheduler. None: not a simulated
/// caller, create the thread normally.
pub(crate) fn adopt_thread() -> Option<Adopted> {
    let _i = InternalSection::new();
    let cur = CURRENT.try_with(|c| c.try_borrow().ok().and_then(|b| b.as_ref().map(|(s, p, i)| (s.clone(), *p, *i)))).ok().flatten();
    let (sim, pool, me) = cur?;
    {
        let g = sim.lock();
        if g.shutdown || g.current != me {
            return None;
        }
    }
    // the workers of the pool come first (worker indices are positions)
    sim.ensure_workers();
    let mut g = sim.lock();
    let a = if me == DRIVER { g.active } else { pool };
    if a != g.active {
        return None;
    }
    let idx = g.pools[a].workers.len();
    let exit_flag = Arc::new(AtomicU8::new(FUTEX_WAITING));
    let prio = g.policy.pct_low - 1 - g.choose(4) as i64;
    g.pools[a].workers.push(Worker {
        parker: Arc::new(Parker::new()),
        deque: VecDeque::new(),
        broadcasts: VecDeque::new(),
        status: Status::Running,
        // parked at a voluntary point: runnable as soon as it exists
        parked_at: Some(YieldKind::JobStart),
        depth: 0,
        priority: prio,
        handle: None,
        ran_anything: true,
        futex: None,
        futex_timeout: false,
        suspend_until: 0,
        foreign: true,
        exit_flag: exit_flag.clone(),
    });
    g.stats.threads_adopted += 1;
    drop(g);
    Some(Adopted { sim, pool: a, idx, exit_flag })
}

impl Adopted {
    /// The thread could not be created after all.
    pub(crate) fn cancel(&self) {
        self.exit_flag.store(FUTEX_WOKEN, Ordering::SeqCst);
    }

    /// First thing on the new thread: join the simulation and wait for the token.
    pub(crate) fn enter(&self) {
        let _i = InternalSection::new();
        // The thread leaves the simulation at its very end, not when its start routine returns:
        // thread-local destructors are program code too (an `Arc` shared with other threads dropped
        // from a thread-local), and after them std drops the thread's own handle - another shared
        // reference count. glibc runs the destructors of pthread keys after all of that
        // (`__call_tls_dtors`, then `__nptl_deallocate_tsd`), so that is where the token is given away.
        unsafe {
            let key = exit_key();
            let b = Box::into_raw(Box::new(self.clone()));
            if libc::pthread_setspecific(key, b as *const libc::c_void) != 0 {
                drop(Box::from_raw(b));
            }
        }
        CURRENT.with(|c| *c.borrow_mut() = Some((self.sim.clone(), self.pool, self.idx)));
        crate::clock::set_thread_sim_time(true);
        bbguard::set_thread_worker(true);
        let tid = unsafe { crate::sys::raw6(libc::SYS_gettid, 0, 0, 0, 0, 0, 0) } as u64;
        let parker = {
            let mut g = self.sim.lock();
            g.known_tids.insert(tid);
            g.pools[self.pool].workers[self.idx].parker.clone()
        };
        let sim_time = crate::clock::set_thread_sim_time(false);
        loop {
            if parker.try_take() {
                break;
            }
            parker.wait_ms(200);
        }
        crate::clock::set_thread_sim_time(sim_time);
        let mut g = self.sim.lock();
        if !g.shutdown {
            g.pools[self.pool].workers[self.idx].parked_at = None;
        }
    }

    /// Last thing on the thread (from the destructor of `exit_key`): the token goes to somebody else for good.
    pub(crate) fn leave(&self) {
        let _i = InternalSection::new();
        self.exit_flag.store(FUTEX_WOKEN, Ordering::SeqCst);
        bbguard::set_thread_worker(false);
        crate::clock::set_thread_sim_time(false);
        let holds = {
            let g = self.sim.lock();
            !g.shutdown && g.current == self.idx && g.active == self.pool
        };
        if holds {
            flush_hooks_passed(&self.sim);
            self.sim.yield_point(self.idx, YieldKind::Exit);
        }
        let _ = CURRENT.try_with(|c| *c.borrow_mut() = None);
    }
}

static EXIT_KEY: std::sync::atomic::AtomicUsize = std::sync::atomic::AtomicUsize::new(usize::MAX);

extern "C" fn exit_key_dtor(p: *mut libc::c_void) {
    if !p.is_null() {
        let a = unsafe { Box::from_raw(p as *mut Adopted) };
        a.leave();
    }
}

/// The pthread key whose destructor ends an adopted thread's membership (created once).
fn exit_key() -> libc::pthread_key_t {
    let k = EXIT_KEY.load(Ordering::SeqCst);
    if k != usize::MAX {
        return k as libc::pthread_key_t;
    }
    let mut key: libc::pthread_key_t = 0;
    let rc = unsafe { libc::pthread_key_create(&mut key, Some(exit_key_dtor_raw)) };
    if rc != 0 {
        sim_fatal("pthread_key_create failed");
    }
    match EXIT_KEY.compare_exchange(usize::MAX, key as usize, Ordering::SeqCst, Ordering::SeqCst) {
        Ok(_) => key,
        Err(other) => {
            unsafe {
                libc::pthread_key_delete(key);
            }
            other as libc::pthread_key_t
        }
    }
}

unsafe extern "C" fn exit_key_dtor_raw(p: *mut libc::c_void) {
    exit_key_dtor(p)
}

/// A simulated thread joins a thread: if that one was adopted and still runs, the caller waits in
/// the simulator until its start routine has returned.
pub(crate) fn wait_for_exit(flag: &Arc<AtomicU8>) {
    let _i = InternalSection::new();
    if flag.load(Ordering::SeqCst) != FUTEX_WAITING {
        return;
    }
    let cur = CURRENT.try_with(|c| c.try_borrow().ok().and_then(|b| b.as_ref().map(|(s, _, i)| (s.clone(), *i)))).ok().flatten();
    let (sim, me) = match cur {
        Some(x) => x,
        None => return,
    };
    {
        let mut g = sim.lock();
        if g.shutdown || g.current != me {
            return;
        }
        if me == DRIVER {
            g.driver_futex = Some(flag.clone());
            g.driver_futex_timeout = false;
        } else {
            let a = current_pool();
            g.pools[a].workers[me].futex = Some(flag.clone());
            g.pools[a].workers[me].futex_timeout = false;
        }
    }
    flush_hooks_passed(&sim);
    sim.yield_point(me, YieldKind::Blocked);
    let mut g = sim.lock();
    if me == DRIVER {
        g.driver_futex = None;
    } else {
        let a = current_pool();
        g.pools[a].workers[me].futex = None;
    }
}

/// Is the calling thread the driver (the simulated program's main thread) of an installed simulation?
pub(crate) fn is_sim_driver() -> bool {
    CURRENT.try_with(|c| matches!(c.try_borrow().ok().as_deref(), Some(Some((_, _, DRIVER))))).unwrap_or(false)
}

/// `sched_yield` on a worker of a simulation. False: do the real call.
pub(crate) fn spin_yield_emulated() -> bool {
    let _i = InternalSection::new();
    let cur = CURRENT.try_with(|c| c.borrow().as_ref().map(|(s, _, i)| (s.clone(), *i))).ok().flatten();
    match cur {
        Some((sim, me)) => {
            {
                let g = sim.lock();
                if g.current != me || g.shutdown {
                    return false;
                }
                if me == DRIVER && g.pools[g.active].workers.is_empty() {
                    return false;
                }
            }
            flush_hooks_passed(&sim);
            sim.yield_point(me, YieldKind::SpinYield);
            true
        }
        _ => false,
    }
}

/// `nanosleep` & co. on a thread that lives on simulated time: the time passes on the simulated
/// clock, not on the wall; a worker also offers the scheduler a switch. False: do the real call.
pub(crate) fn sleep_emulated(ns: u64) -> bool {
    if !crate::clock::thread_on_sim_time() {
        return false;
    }
    let _i = InternalSection::new();
    crate::clock::advance_ns(ns.min(i64::MAX as u64) as i64);
    let cur = CURRENT.try_with(|c| c.borrow().as_ref().map(|(s, _, i)| (s.clone(), *i))).ok().flatten();
    if let Some((sim, me)) = cur {
        {
            let mut g = sim.lock();
            g.stats.sleeps_simulated += 1;
            g.stats.clock_ns_added += ns;
        }
        if me != DRIVER && sim.lock().current == me {
            flush_hooks_passed(&sim);
            sim.yield_point(me, YieldKind::Sleep);
        }
    }
    true
}

pub(crate) fn item_boundary(leaf_path: u64, item_no: u64, base_index: u64) {
    if let Some((sim, me)) = current() {
        if me != DRIVER {
            flush_hooks_passed(&sim);
            {
                let mut g = sim.lock();
                g.stats.items += 1;
                let h = fnv(fnv(fnv(g.op.hash, me as u64), leaf_path), item_no);
                g.op.hash = h;
                let bi = base_index as i64;
                if bi < g.op.completed_max {
                    g.stats.out_of_order_items += 1;
                } else {
                    g.op.completed_max = bi;
                }
            }
            sim.yield_point(me, YieldKind::Item);
        }
    }
}

pub(crate) fn leaf_begin(path: u64, start: u64, len: u64) {
    if let Some((sim, me)) = current() {
        if me != DRIVER {
            let mut g = sim.lock();
            g.stats.leaves += 1;
            g.op.leaves += 1;
            g.op.shape = fnv(fnv(fnv(g.op.shape, path), start), len);
            g.op.hash = fnv(fnv(g.op.hash, 0xffff_0000 | me as u64), path);
        }
    }
}

pub(crate) fn shared_access() {
    if let Some((sim, me)) = current() {
        if me != DRIVER {
            sim.yield_point(me, YieldKind::Shared);
        }
    }
}

pub(crate) fn leaf_end() {
    if let Some((sim, me)) = current() {
        if me != DRIVER {
            flush_hooks_passed(&sim);
            sim.yield_point(me, YieldKind::LeafEnd);
        }
    }
}

/// State of rayon's thief splitter for one subtree.
#[derive(Clone, Copy, Debug)]
pub(crate) struct Splitter {
    splits: usize,
    depth: u32,
}

impl Splitter {
    pub(crate) fn new() -> Self {
        Splitter {
            splits: current_num_threads(),
            depth: 0,
        }
    }
}

/// Decide whether (and where) a producer of `len` base positions is split.
pub(crate) fn decide_split(len: usize, min_len: usize, max_len: usize, sp: &mut Splitter, migrated: bool) -> Option<usize> {
    let (sim, me) = match current() {
        Some(c) if c.1 != DRIVER => c,
        _ => return None,
    };
    let _ = me;
    if len < 2 || sp.depth >= 40 {
        return None;
    }
    let min_len = min_len.max(1);
    let mut g = sim.lock();
    let k = g.k();
    let must = len > max_len.max(1);
    let r = match g.cfg.split {
        SplitMode::Whole => {
            if must {
                Some(len / 2)
            } else {
                None
            }
        }
        SplitMode::PerItem => {
            if len / 2 >= min_len {
                Some(len / 2)
            } else {
                None
            }
        }
        SplitMode::Adaptive => {
            if len / 2 < min_len {
                None
            } else if migrated {
                sp.splits = k.max(sp.splits / 2);
                Some(len / 2)
            } else if sp.splits > 0 || must {
                sp.splits /= 2;
                Some(len / 2)
            } else {
                None
            }
        }
        SplitMode::Random => {
            if len / 2 < min_len && !must {
                None
            } else {
                // decision 0 = do not split (unless the max_len contract demands it)
                let d = g.choose(4);
                if d == 0 && !must {
                    None
                } else {
                    let lo = min_len.min(len - 1).max(1);
                    let hi = (len - min_len).max(lo);
                    let span = (hi - lo + 1) as u64;
                    let c = g.choose(span + 1);
                    Some(if c == 0 { len / 2 } else { lo + (c as usize - 1) })
                }
            }
        }
    };
    if r.is_some() {
        g.stats.splits += 1;
        sp.depth += 1;
    }
    r
}

/// One decision in `0..n` from the simulation's stream (0 when not simulated).
pub(crate) fn choose(n: u64) -> u64 {
    match current() {
        Some((sim, _)) => sim.lock().choose(n),
        None => 0,
    }
}

pub(crate) fn note_unstable_perm() {
    if let Some((sim, _)) = current() {
        sim.lock().stats.unstable_sort_perms += 1;
    }
}

pub(crate) fn note_find_any() {
    if let Some((sim, _)) = current() {
        sim.lock().stats.find_any_choices += 1;
    }
}

/// Is the calling thread inside a simulation (driver or worker)?
pub fn simulated() -> bool {
    current().is_some()
}

/// Run `f` on a worker (inline if already on one; sequentially inline when
/// the thread is not part of any simulation).
pub(crate) fn in_worker<F, R>(f: F) -> R
where
    F: FnOnce() -> R + Send,
    R: Send,
{
    match current() {
        None => f(),
        Some((sim, me)) => {
            if me == DRIVER {
                sim.in_worker_cold(f)
            } else {
                f()
            }
        }
    }
}

/// `join` where each side learns whether it was stolen.
pub(crate) fn join_context_raw<A, B, RA, RB>(a: A, b: B) -> (RA, RB)
where
    A: FnOnce(bool) -> RA + Send,
    B: FnOnce(bool) -> RB + Send,
    RA: Send,
    RB: Send,
{
    match current() {
        None => {
            let ra = a(false);
            let rb = b(false);
            (ra, rb)
        }
        Some((sim, me)) => {
            if me == DRIVER {
                sim.clone().in_worker_cold(move || join_context_raw(a, b))
            } else {
                sim.join_impl(me, a, b)
            }
        }
    }
}

pub fn join<A, B, RA, RB>(a: A, b: B) -> (RA, RB)
where
    A: FnOnce() -> RA + Send,
    B: FnOnce() -> RB + Send,
    RA: Send,
    RB: Send,
{
    join_context_raw(move |_| a(), move |_| b())
}

pub fn join_context<A, B, RA, RB>(a: A, b: B) -> (RA, RB)
where
    A: FnOnce(FnContext) -> RA + Send,
    B: FnOnce(FnContext) -> RB + Send,
    RA: Send,
    RB: Send,
{
    join_context_raw(move |m| a(FnContext { migrated: m }), move |m| b(FnContext { migrated: m }))
}

pub fn current_num_threads() -> usize {
    match current() {
        Some((sim, _)) => {
            let g = sim.lock();
            g.cfg.pool_sizes[g.active].max(1)
        }
        None => 1,
    }
}

/// Does the calling worker have jobs of its own that nobody has stolen yet?
pub fn current_thread_has_pending_tasks() -> Option<bool> {
    match current() {
        Some((sim, me)) if me != DRIVER => {
            let g = sim.lock();
            Some(!g.pools[g.active].workers[me].deque.is_empty())
        }
        _ => None,
    }
}

pub fn max_num_threads() -> usize {
    1 << 16
}

#[derive(Clone, Copy, Debug, PartialEq, Eq)]
pub enum Yield {
    Executed,
    Idle,
}

/// Cooperative yield: in the simulation a scheduling point at which any other
/// runnable thread may be chosen; one pending job of this worker is run if there is one.
pub fn yield_now() -> Option<Yield> {
    match current() {
        Some((sim, me)) if me != DRIVER => {
            sim.yield_point(me, YieldKind::Shared);
            match sim.find_work(me, true) {
                Some(j) => {
                    sim.execute(me, j);
                    Some(Yield::Executed)
                }
                None => Some(Yield::Idle),
            }
        }
        _ => None,
    }
}

pub fn yield_local() -> Option<Yield> {
    match current() {
        Some((sim, me)) if me != DRIVER => {
            sim.yield_point(me, YieldKind::Shared);
            let j = {
                let mut g = sim.lock();
                let a = g.active;
                g.pools[a].workers[me].deque.pop_back()
            };
            match j {
                Some(j) => {
                    sim.execute(me, j);
                    Some(Yield::Executed)
                }
                None => Some(Yield::Idle),
            }
        }
        _ => None,
    }
}

/// Context handed to the closures of the public `join_context`.
#[derive(Clone, Copy, Debug)]
pub struct FnContext {
    migrated: bool,
}
impl FnContext {
    pub fn migrated(&self) -> bool {
        self.migrated
    }
}

pub fn current_thread_index() -> Option<usize> {
    match current() {
        // (an adopted thread is not a worker of the pool)
        Some((sim, me)) if me != DRIVER => {
            let g = sim.lock();
            if me < g.cfg.pool_sizes[current_pool().min(g.cfg.pool_sizes.len() - 1)].max(1) {
                Some(me)
            } else {
                None
            }
        }
        _ => None,
    }
}

// ---- scope / spawn -----------------------------------------------------------

pub struct Scope<'scope> {
    pending: Arc<Mutex<ScopeState>>,
    _marker: std::marker::PhantomData<Box<dyn FnOnce(&Scope<'scope>) + Send + Sync + 'scope>>,
}

struct ScopeState {
    pending: u64,
    panic: Option<Box<dyn Any + Send>>,
    latch_id: u64,
}

struct ScopePtr<'scope>(*const Scope<'scope>);
unsafe impl<'scope> Send for ScopePtr<'scope> {}

impl<'scope> Scope<'scope> {
    pub fn spawn<F>(&self, f: F)
    where
        F: FnOnce(&Scope<'scope>) + Send + 'scope,
    {
        let st = self.pending.clone();
        {
            let mut s = st.lock().unwrap();
            s.pending += 1;
            if let Some((sim, _)) = current() {
                let id = s.latch_id;
                sim.lock().finished_jobs.remove(&id);
            }
        }
        let sp = ScopePtr(self as *const _);
        let body: Box<dyn FnOnce() + Send + 'scope> = Box::new(move || {
            let sp = sp;
            let scope = unsafe { &*sp.0 };
            let r = panic::catch_unwind(AssertUnwindSafe(|| f(scope)));
            let mut s = st.lock().unwrap();
            if let Err(p) = r {
                if s.panic.is_none() {
                    s.panic = Some(p);
                }
            }
            s.pending -= 1;
            if s.pending == 0 {
                if let Some((sim, _)) = current() {
                    let id = s.latch_id;
                    sim.lock().finished_jobs.insert(id);
                }
            }
        });
        // erase the lifetime: the scope does not return before pending == 0
        let body: Box<dyn FnOnce() + Send + 'static> = unsafe { std::mem::transmute(body) };
        push_heap_job(body);
    }

    pub fn spawn_fifo<F>(&self, f: F)
    where
        F: FnOnce(&Scope<'scope>) + Send + 'scope,
    {
        self.spawn(f)
    }
}

fn push_heap_job(body: Box<dyn FnOnce() + Send + 'static>) {
    match current() {
        None => body(),
        Some((sim, me)) => {
            let hj = Box::new(HeapJob { func: body });
            let mut g = sim.lock();
            let id = g.next_job_id;
            g.next_job_id += 1;
            let jr = JobRef {
                data: Box::into_raw(hj) as *const (),
                exec: HeapJob::exec,
                id,
                origin: me,
            };
            let a = g.active;
            if me == DRIVER {
                g.pools[a].injector.push_back(jr);
            } else {
                g.pools[a].workers[me].deque.push_back(jr);
            }
        }
    }
}

pub fn scope<'scope, OP, R>(op: OP) -> R
where
    OP: FnOnce(&Scope<'scope>) -> R + Send,
    R: Send,
{
    in_worker(move || {
        let latch_id = match current() {
            Some((sim, _)) => {
                let mut g = sim.lock();
                let id = g.next_job_id;
                g.next_job_id += 1;
                id
            }
            None => 0,
        };
        let scope = Scope {
            pending: Arc::new(Mutex::new(ScopeState {
                pending: 0,
                panic: None,
                latch_id,
            })),
            _marker: std::marker::PhantomData,
        };
        let r = panic::catch_unwind(AssertUnwindSafe(|| op(&scope)));
        // wait for all spawned jobs, helping out meanwhile
        if let Some((sim, me)) = current() {
            loop {
                if scope.pending.lock().unwrap().pending == 0 {
                    break;
                }
                match sim.find_work(me, true) {
                    Some(j) => sim.execute(me, j),
                    None => {
                        // somebody else is running our jobs
                        {
                            let mut g = sim.lock();
                            let a = current_pool();
                            g.pools[a].workers[me].status = Status::Waiting(latch_id);
                        }
                        sim.yield_point(me, YieldKind::Wait);
                        let mut g = sim.lock();
                        let a = current_pool();
                        g.pools[a].workers[me].status = Status::Running;
                    }
                }
            }
        }
        let p = scope.pending.lock().unwrap().panic.take();
        match (r, p) {
            (Err(p), _) => panic::resume_unwind(p),
            (_, Some(p)) => panic::resume_unwind(p),
            (Ok(r), None) => r,
        }
    })
}

pub fn scope_fifo<'scope, OP, R>(op: OP) -> R
where
    OP: FnOnce(&Scope<'scope>) -> R + Send,
    R: Send,
{
    scope(op)
}

/// Like `scope`, but the body runs on the calling thread. In the model the body
/// of a scope always runs where the caller is once inside a pool, and an outside
/// caller is represented by the worker that took the injected job.
pub fn in_place_scope<'scope, OP, R>(op: OP) -> R
where
    OP: FnOnce(&Scope<'scope>) -> R + Send,
    R: Send,
{
    scope(op)
}

pub fn in_place_scope_fifo<'scope, OP, R>(op: OP) -> R
where
    OP: FnOnce(&Scope<'scope>) -> R + Send,
    R: Send,
{
    scope(op)
}

/// Fire-and-forget job. In the simulation it is run before the enclosing root
/// operation returns to the driver or, when spawned by the driver itself, at
/// the start of the next operation.
pub fn spawn<F>(f: F)
where
    F: FnOnce() + Send + 'static,
{
    if let Some((sim, _)) = current() {
        sim.lock().detached += 1;
    }
    push_heap_job(Box::new(move || {
        let _ = panic::catch_unwind(AssertUnwindSafe(f));
    }));
}

pub fn spawn_fifo<F>(f: F)
where
    F: FnOnce() + Send + 'static,
{
    spawn(f)
}

// ---- broadcast -----------------------------------------------------------------

/// Context handed to the closures of `broadcast` / `spawn_broadcast`.
pub struct BroadcastContext<'a> {
    index: usize,
    num_threads: usize,
    _marker: std::marker::PhantomData<&'a ()>,
}

impl<'a> BroadcastContext<'a> {
    pub fn index(&self) -> usize {
        self.index
    }
    pub fn num_threads(&self) -> usize {
        self.num_threads
    }
}

impl<'a> std::fmt::Debug for BroadcastContext<'a> {
    fn fmt(&self, f: &mut std::fmt::Formatter<'_>) -> std::fmt::Result {
        f.debug_struct("BroadcastContext").field("index", &self.index).field("num_threads", &self.num_threads).finish()
    }
}

/// Push one job per worker of the active pool onto the workers' own broadcast queues.
fn push_broadcast_jobs(sim: &Arc<Sim>, me: usize, mut make: impl FnMut(usize, usize) -> Box<dyn FnOnce() + Send + 'static>) -> usize {
    sim.ensure_workers();
    let mut g = sim.lock();
    let a = if me == DRIVER { g.active } else { current_pool() };
    let k = g.pools[a].workers.iter().filter(|w| !w.foreign).count();
    for i in 0..k {
        let hj = Box::new(HeapJob { func: make(i, k) });
        let id = g.next_job_id;
        g.next_job_id += 1;
        let jr = JobRef {
            data: Box::into_raw(hj) as *const (),
            exec: HeapJob::exec,
            id,
            origin: me,
        };
        g.pools[a].workers[i].broadcasts.push_back(jr);
    }
    k
}

/// `rayon::broadcast`: `op` runs once on every worker of the current pool; the results come back in
/// thread-index order. The caller waits (a worker helps out meanwhile, and runs its own copy).
pub fn broadcast<OP, R>(op: OP) -> Vec<R>
where
    OP: Fn(BroadcastContext<'_>) -> R + Sync,
    R: Send,
{
    let (sim, me) = match current() {
        Some(c) => c,
        None => {
            return vec![op(BroadcastContext {
                index: 0,
                num_threads: 1,
                _marker: std::marker::PhantomData,
            })]
        }
    };
    struct Shared<R> {
        results: Mutex<Vec<Option<thread::Result<R>>>>,
        remaining: std::sync::atomic::AtomicUsize,
    }
    let latch_id = {
        let mut g = sim.lock();
        let id = g.next_job_id;
        g.next_job_id += 1;
        id
    };
    let shared: Shared<R> = Shared {
        results: Mutex::new(vec![]),
        remaining: std::sync::atomic::AtomicUsize::new(0),
    };
    let op_ptr = &op as *const OP as usize;
    let sh_ptr = &shared as *const Shared<R> as usize;
    let sim2 = sim.clone();
    let k = push_broadcast_jobs(&sim, me, |i, k| {
        let sim3 = sim2.clone();
        let body: Box<dyn FnOnce() + Send + '_> = Box::new(move || {
            // Safety: `broadcast` does not return before `remaining` reaches zero
            let op = unsafe { &*(op_ptr as *const OP) };
            let sh = unsafe { &*(sh_ptr as *const Shared<R>) };
            let r = panic::catch_unwind(AssertUnwindSafe(|| {
                op(BroadcastContext {
                    index: i,
                    num_threads: k,
                    _marker: std::marker::PhantomData,
                })
            }));
            let _i = InternalSection::new();
            {
                let mut v = sh.results.lock().unwrap_or_else(|e| e.into_inner());
                while v.len() <= i {
                    v.push(None);
                }
                v[i] = Some(r);
            }
            if sh.remaining.fetch_sub(1, Ordering::SeqCst) == 1 {
                sim3.lock().finished_jobs.insert(latch_id);
            }
        });
        // erase the lifetimes (see the safety comment above)
        unsafe { std::mem::transmute::<Box<dyn FnOnce() + Send + '_>, Box<dyn FnOnce() + Send + 'static>>(body) }
    });
    // (no scheduling point since the jobs were pushed: none of them has run yet)
    shared.remaining.store(k, Ordering::SeqCst);
    if k == 0 {
        sim.lock().finished_jobs.insert(latch_id);
    }
    if me == DRIVER {
        sim.begin_root_op();
        {
            let mut g = sim.lock();
            g.driver_wait = Some(latch_id);
        }
        loop {
            let done = { self_done(&sim, latch_id) };
            if done {
                break;
            }
            sim.yield_point(DRIVER, YieldKind::Wait);
        }
        {
            let mut g = sim.lock();
            g.driver_wait = None;
        }
        sim.end_root_op();
    } else {
        loop {
            if self_done(&sim, latch_id) {
                break;
            }
            match sim.find_work(me, true) {
                Some(j) => sim.execute(me, j),
                None => {
                    {
                        let mut g = sim.lock();
                        let a = current_pool();
                        g.pools[a].workers[me].status = Status::Waiting(latch_id);
                    }
                    sim.yield_point(me, YieldKind::Wait);
                    let mut g = sim.lock();
                    let a = current_pool();
                    g.pools[a].workers[me].status = Status::Running;
                }
            }
        }
    }
    let mut out = Vec::with_capacity(k);
    let mut first_panic = None;
    let v = std::mem::take(&mut *shared.results.lock().unwrap_or_else(|e| e.into_inner()));
    for r in v.into_iter().take(k) {
        match r {
            Some(Ok(x)) => out.push(x),
            Some(Err(p)) => {
                if first_panic.is_none() {
                    first_panic = Some(p);
                }
            }
            None => {}
        }
    }
    if let Some(p) = first_panic {
        panic::resume_unwind(p);
    }
    out
}

fn self_done(sim: &Arc<Sim>, id: u64) -> bool {
    sim.lock().job_done(id)
}

/// `rayon::spawn_broadcast`: `op` runs once on every worker of the current pool, some time; nobody waits.
pub fn spawn_broadcast<OP>(op: OP)
where
    OP: Fn(BroadcastContext<'_>) + Send + Sync + 'static,
{
    let (sim, me) = match current() {
        Some(c) => c,
        None => {
            op(BroadcastContext {
                index: 0,
                num_threads: 1,
                _marker: std::marker::PhantomData,
            });
            return;
        }
    };
    let op = Arc::new(op);
    push_broadcast_jobs(&sim, me, |i, k| {
        let op = op.clone();
        Box::new(move || {
            let _ = panic::catch_unwind(AssertUnwindSafe(|| {
                op(BroadcastContext {
                    index: i,
                    num_threads: k,
                    _marker: std::marker::PhantomData,
                })
            }));
        })
    });
}

// ---- thread pools ------------------------------------------------------------

#[derive(Debug)]
pub struct ThreadPoolBuildError;
impl std::fmt::Display for ThreadPoolBuildError {
    fn fmt(&self, f: &mut std::fmt::Formatter<'_>) -> std::fmt::Result {
        write!(f, "sim_rayon: thread pool build error")
    }
}
impl std::error::Error for ThreadPoolBuildError {}

/// Accepted for source compatibility. The simulator, not the program, decides
/// the number of workers, so the requested size is recorded but ignored.
#[derive(Default)]
pub struct ThreadPoolBuilder {
    n: usize,
}

impl ThreadPoolBuilder {
    pub fn new() -> Self {
        Self::default()
    }
    pub fn num_threads(mut self, n: usize) -> Self {
        self.n = n;
        self
    }
    pub fn thread_name<F: FnMut(usize) -> String + 'static>(self, _f: F) -> Self {
        self
    }
    pub fn stack_size(self, _s: usize) -> Self {
        self
    }
    pub fn build(self) -> Result<ThreadPool, ThreadPoolBuildError> {
        Ok(ThreadPool { _n: self.n })
    }
    pub fn build_global(self) -> Result<(), ThreadPoolBuildError> {
        Ok(())
    }
}

pub struct ThreadPool {
    _n: usize,
}

impl ThreadPool {
    pub fn install<OP, R>(&self, op: OP) -> R
    where
        OP: FnOnce() -> R + Send,
        R: Send,
    {
        in_worker(op)
    }
    pub fn current_num_threads(&self) -> usize {
        current_num_threads()
    }
    pub fn join<A, B, RA, RB>(&self, a: A, b: B) -> (RA, RB)
    where
        A: FnOnce() -> RA + Send,
        B: FnOnce() -> RB + Send,
        RA: Send,
        RB: Send,
    {
        join(a, b)
    }
    pub fn scope<'scope, OP, R>(&self, op: OP) -> R
    where
        OP: FnOnce(&Scope<'scope>) -> R + Send,
        R: Send,
    {
        scope(op)
    }
    pub fn spawn<F>(&self, f: F)
    where
        F: FnOnce() + Send + 'static,
    {
        spawn(f)
    }
    pub fn broadcast<OP, R>(&self, op: OP) -> Vec<R>
    where
        OP: Fn(BroadcastContext<'_>) -> R + Sync,
        R: Send,
    {
        broadcast(op)
    }
    pub fn spawn_broadcast<OP>(&self, op: OP)
    where
        OP: Fn(BroadcastContext<'_>) + Send + Sync + 'static,
    {
        spawn_broadcast(op)
    }
}
