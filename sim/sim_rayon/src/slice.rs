//! `ParallelSlice` / `ParallelSliceMut`: chunk producers and sorts.

use crate::iter::*;
use crate::sim;
use std::cmp::Ordering;

pub struct ChunksIter<'a, T> {
    slice: &'a [T],
    size: usize,
    exact: bool,
}
impl<'a, T: Sync + 'a> ParallelIterator for ChunksIter<'a, T> {
    type Item = &'a [T];
    type Seq = std::slice::Chunks<'a, T>;
    fn sim_len(&self) -> usize {
        if self.exact {
            self.slice.len() / self.size
        } else {
            (self.slice.len() + self.size - 1) / self.size
        }
    }
    fn sim_split_at(self, mid: usize) -> (Self, Self) {
        let at = (mid * self.size).min(self.slice.len());
        let (l, r) = self.slice.split_at(at);
        (
            ChunksIter { slice: l, size: self.size, exact: self.exact },
            ChunksIter { slice: r, size: self.size, exact: self.exact },
        )
    }
    fn sim_into_seq(self) -> Self::Seq {
        let s = if self.exact {
            &self.slice[..self.slice.len() - self.slice.len() % self.size]
        } else {
            self.slice
        };
        s.chunks(self.size)
    }
}
impl<'a, T: Sync + 'a> IndexedParallelIterator for ChunksIter<'a, T> {}

pub struct ChunksMutIter<'a, T> {
    slice: &'a mut [T],
    size: usize,
    exact: bool,
}
impl<'a, T: Send + 'a> ParallelIterator for ChunksMutIter<'a, T> {
    type Item = &'a mut [T];
    type Seq = std::slice::ChunksMut<'a, T>;
    fn sim_len(&self) -> usize {
        if self.exact {
            self.slice.len() / self.size
        } else {
            (self.slice.len() + self.size - 1) / self.size
        }
    }
    fn sim_split_at(self, mid: usize) -> (Self, Self) {
        let at = (mid * self.size).min(self.slice.len());
        let (l, r) = self.slice.split_at_mut(at);
        (
            ChunksMutIter { slice: l, size: self.size, exact: self.exact },
            ChunksMutIter { slice: r, size: self.size, exact: self.exact },
        )
    }
    fn sim_into_seq(self) -> Self::Seq {
        let n = self.slice.len();
        let s = if self.exact { &mut self.slice[..n - n % self.size] } else { self.slice };
        s.chunks_mut(self.size)
    }
}
impl<'a, T: Send + 'a> IndexedParallelIterator for ChunksMutIter<'a, T> {}

pub struct WindowsIter<'a, T> {
    slice: &'a [T],
    size: usize,
}
impl<'a, T: Sync + 'a> ParallelIterator for WindowsIter<'a, T> {
    type Item = &'a [T];
    type Seq = std::slice::Windows<'a, T>;
    fn sim_len(&self) -> usize {
        (self.slice.len() + 1).saturating_sub(self.size)
    }
    fn sim_split_at(self, mid: usize) -> (Self, Self) {
        let n = self.sim_len();
        let mid = mid.min(n);
        let lend = if mid == 0 { 0 } else { mid + self.size - 1 };
        let l = &self.slice[..lend.min(self.slice.len())];
        let r = &self.slice[mid.min(self.slice.len())..];
        (WindowsIter { slice: l, size: self.size }, WindowsIter { slice: r, size: self.size })
    }
    fn sim_into_seq(self) -> Self::Seq {
        self.slice.windows(self.size)
    }
}
impl<'a, T: Sync + 'a> IndexedParallelIterator for WindowsIter<'a, T> {}

pub trait ParallelSlice<T: Sync> {
    fn as_parallel_slice(&self) -> &[T];

    fn par_chunks(&self, chunk_size: usize) -> ChunksIter<'_, T> {
        assert!(chunk_size != 0, "chunk_size must not be zero");
        ChunksIter { slice: self.as_parallel_slice(), size: chunk_size, exact: false }
    }
    fn par_chunks_exact(&self, chunk_size: usize) -> ChunksIter<'_, T> {
        assert!(chunk_size != 0, "chunk_size must not be zero");
        ChunksIter { slice: self.as_parallel_slice(), size: chunk_size, exact: true }
    }
    fn par_windows(&self, window_size: usize) -> WindowsIter<'_, T> {
        assert!(window_size != 0);
        WindowsIter { slice: self.as_parallel_slice(), size: window_size }
    }
}
impl<T: Sync> ParallelSlice<T> for [T] {
    fn as_parallel_slice(&self) -> &[T] {
        self
    }
}

/// After a (stable) sort, permute every run of elements that compare equal:
/// an unstable sort may leave them in any order.
fn permute_ties<T, F: Fn(&T, &T) -> Ordering>(v: &mut [T], cmp: &F) {
    let n = v.len();
    let mut i = 0;
    while i < n {
        let mut j = i + 1;
        while j < n && cmp(&v[i], &v[j]) == Ordering::Equal {
            j += 1;
        }
        if j - i > 1 {
            sim::note_unstable_perm();
            // Fisher-Yates driven by the decision stream (all zeros = identity)
            for a in (i + 1..j).rev() {
                let span = (a - i + 1) as u64;
                let d = sim::choose(span) as usize;
                // d == 0 keeps the element in place
                let b = if d == 0 { a } else { i + d - 1 };
                v.swap(a, b);
            }
        }
        i = j;
    }
}

pub trait ParallelSliceMut<T: Send> {
    fn as_parallel_slice_mut(&mut self) -> &mut [T];

    fn par_chunks_mut(&mut self, chunk_size: usize) -> ChunksMutIter<'_, T> {
        assert!(chunk_size != 0, "chunk_size must not be zero");
        ChunksMutIter { slice: self.as_parallel_slice_mut(), size: chunk_size, exact: false }
    }
    fn par_chunks_exact_mut(&mut self, chunk_size: usize) -> ChunksMutIter<'_, T> {
        assert!(chunk_size != 0, "chunk_size must not be zero");
        ChunksMutIter { slice: self.as_parallel_slice_mut(), size: chunk_size, exact: true }
    }

    fn par_sort(&mut self)
    where
        T: Ord,
    {
        self.as_parallel_slice_mut().sort()
    }
    fn par_sort_by<F>(&mut self, compare: F)
    where
        F: Fn(&T, &T) -> Ordering + Sync,
    {
        self.as_parallel_slice_mut().sort_by(compare)
    }
    fn par_sort_by_key<K, F>(&mut self, f: F)
    where
        K: Ord,
        F: Fn(&T) -> K + Sync,
    {
        self.as_parallel_slice_mut().sort_by_key(f)
    }
    fn par_sort_by_cached_key<K, F>(&mut self, f: F)
    where
        K: Ord + Send,
        F: Fn(&T) -> K + Sync,
    {
        self.as_parallel_slice_mut().sort_by_cached_key(f)
    }
    fn par_sort_unstable(&mut self)
    where
        T: Ord,
    {
        let s = self.as_parallel_slice_mut();
        s.sort();
        permute_ties(s, &|a: &T, b: &T| a.cmp(b));
    }
    fn par_sort_unstable_by<F>(&mut self, compare: F)
    where
        F: Fn(&T, &T) -> Ordering + Sync,
    {
        let s = self.as_parallel_slice_mut();
        s.sort_by(&compare);
        permute_ties(s, &compare);
    }
    fn par_sort_unstable_by_key<K, F>(&mut self, f: F)
    where
        K: Ord,
        F: Fn(&T) -> K + Sync,
    {
        let s = self.as_parallel_slice_mut();
        s.sort_by_key(&f);
        permute_ties(s, &|a: &T, b: &T| f(a).cmp(&f(b)));
    }
}
impl<T: Send> ParallelSliceMut<T> for [T] {
    fn as_parallel_slice_mut(&mut self) -> &mut [T] {
        self
    }
}
