use super::*;

// ---- &[T] ----------------------------------------------------------------------

pub struct SliceIter<'a, T> {
    pub(crate) slice: &'a [T],
}
impl<'a, T: Sync + 'a> ParallelIterator for SliceIter<'a, T> {
    type Item = &'a T;
    type Seq = std::slice::Iter<'a, T>;
    fn sim_len(&self) -> usize {
        self.slice.len()
    }
    fn sim_split_at(self, mid: usize) -> (Self, Self) {
        let (l, r) = self.slice.split_at(mid);
        (SliceIter { slice: l }, SliceIter { slice: r })
    }
    fn sim_into_seq(self) -> Self::Seq {
        self.slice.iter()
    }
    fn opt_len(&self) -> Option<usize> {
        Some(self.slice.len())
    }
}
impl<'a, T: Sync + 'a> IndexedParallelIterator for SliceIter<'a, T> {}

impl<'a, T: Sync + 'a> IntoParallelIterator for &'a [T] {
    type Iter = SliceIter<'a, T>;
    type Item = &'a T;
    fn into_par_iter(self) -> Self::Iter {
        SliceIter { slice: self }
    }
}
impl<'a, T: Sync + 'a> IntoParallelIterator for &'a Vec<T> {
    type Iter = SliceIter<'a, T>;
    type Item = &'a T;
    fn into_par_iter(self) -> Self::Iter {
        SliceIter { slice: self }
    }
}
impl<'a, T: Sync + 'a, const N: usize> IntoParallelIterator for &'a [T; N] {
    type Iter = SliceIter<'a, T>;
    type Item = &'a T;
    fn into_par_iter(self) -> Self::Iter {
        SliceIter { slice: self }
    }
}

// ---- &mut [T] ---------------------------------------------------------------------

pub struct SliceIterMut<'a, T> {
    pub(crate) slice: &'a mut [T],
}
impl<'a, T: Send + 'a> ParallelIterator for SliceIterMut<'a, T> {
    type Item = &'a mut T;
    type Seq = std::slice::IterMut<'a, T>;
    fn sim_len(&self) -> usize {
        self.slice.len()
    }
    fn sim_split_at(self, mid: usize) -> (Self, Self) {
        let (l, r) = self.slice.split_at_mut(mid);
        (SliceIterMut { slice: l }, SliceIterMut { slice: r })
    }
    fn sim_into_seq(self) -> Self::Seq {
        self.slice.iter_mut()
    }
}
impl<'a, T: Send + 'a> IndexedParallelIterator for SliceIterMut<'a, T> {}

impl<'a, T: Send + 'a> IntoParallelIterator for &'a mut [T] {
    type Iter = SliceIterMut<'a, T>;
    type Item = &'a mut T;
    fn into_par_iter(self) -> Self::Iter {
        SliceIterMut { slice: self }
    }
}
impl<'a, T: Send + 'a> IntoParallelIterator for &'a mut Vec<T> {
    type Iter = SliceIterMut<'a, T>;
    type Item = &'a mut T;
    fn into_par_iter(self) -> Self::Iter {
        SliceIterMut { slice: self }
    }
}
impl<'a, T: Send + 'a, const N: usize> IntoParallelIterator for &'a mut [T; N] {
    type Iter = SliceIterMut<'a, T>;
    type Item = &'a mut T;
    fn into_par_iter(self) -> Self::Iter {
        SliceIterMut { slice: self }
    }
}

// ---- Vec<T> ------------------------------------------------------------------------

pub struct VecIter<T> {
    pub(crate) vec: Vec<T>,
}
impl<T: Send> ParallelIterator for VecIter<T> {
    type Item = T;
    type Seq = std::vec::IntoIter<T>;
    fn sim_len(&self) -> usize {
        self.vec.len()
    }
    fn sim_split_at(mut self, mid: usize) -> (Self, Self) {
        let r = self.vec.split_off(mid);
        (VecIter { vec: self.vec }, VecIter { vec: r })
    }
    fn sim_into_seq(self) -> Self::Seq {
        self.vec.into_iter()
    }
}
impl<T: Send> IndexedParallelIterator for VecIter<T> {}

impl<T: Send> IntoParallelIterator for Vec<T> {
    type Iter = VecIter<T>;
    type Item = T;
    fn into_par_iter(self) -> Self::Iter {
        VecIter { vec: self }
    }
}
impl<T: Send, const N: usize> IntoParallelIterator for [T; N] {
    type Iter = VecIter<T>;
    type Item = T;
    fn into_par_iter(self) -> Self::Iter {
        VecIter {
            vec: Vec::from(self),
        }
    }
}
impl<T: Send> IntoParallelIterator for Option<T> {
    type Iter = VecIter<T>;
    type Item = T;
    fn into_par_iter(self) -> Self::Iter {
        VecIter {
            vec: self.into_iter().collect(),
        }
    }
}
impl<T: Send> IntoParallelIterator for std::collections::VecDeque<T> {
    type Iter = VecIter<T>;
    type Item = T;
    fn into_par_iter(self) -> Self::Iter {
        VecIter {
            vec: self.into_iter().collect(),
        }
    }
}

// Unordered / ordered collections: rayon collects them into a Vec first, in
// the collection's own iteration order.
macro_rules! via_vec {
    ($($ty:ty, [$($g:tt)*], $item:ty);* $(;)?) => {$(
        impl<$($g)*> IntoParallelIterator for $ty {
            type Iter = VecIter<$item>;
            type Item = $item;
            fn into_par_iter(self) -> Self::Iter {
                VecIter { vec: self.into_iter().collect() }
            }
        }
    )*};
}
via_vec! {
    std::collections::HashMap<K, V, S>, [K: Send + Eq + std::hash::Hash, V: Send, S: std::hash::BuildHasher], (K, V);
    &'a std::collections::HashMap<K, V, S>, ['a, K: Sync + Eq + std::hash::Hash, V: Sync, S: std::hash::BuildHasher], (&'a K, &'a V);
    &'a mut std::collections::HashMap<K, V, S>, ['a, K: Sync + Eq + std::hash::Hash, V: Send, S: std::hash::BuildHasher], (&'a K, &'a mut V);
    std::collections::HashSet<T, S>, [T: Send + Eq + std::hash::Hash, S: std::hash::BuildHasher], T;
    &'a std::collections::HashSet<T, S>, ['a, T: Sync + Eq + std::hash::Hash, S: std::hash::BuildHasher], &'a T;
    std::collections::BTreeMap<K, V>, [K: Send + Ord, V: Send], (K, V);
    &'a std::collections::BTreeMap<K, V>, ['a, K: Sync + Ord, V: Sync], (&'a K, &'a V);
    &'a mut std::collections::BTreeMap<K, V>, ['a, K: Sync + Ord, V: Send], (&'a K, &'a mut V);
    std::collections::BTreeSet<T>, [T: Send + Ord], T;
    &'a std::collections::BTreeSet<T>, ['a, T: Sync + Ord], &'a T;
    &'a std::collections::VecDeque<T>, ['a, T: Sync], &'a T;
    &'a mut std::collections::VecDeque<T>, ['a, T: Send], &'a mut T;
    std::collections::LinkedList<T>, [T: Send], T;
    &'a std::collections::LinkedList<T>, ['a, T: Sync], &'a T;
    std::collections::BinaryHeap<T>, [T: Send + Ord], T;
    &'a Option<T>, ['a, T: Sync], &'a T;
    &'a mut Option<T>, ['a, T: Send], &'a mut T;
    Result<T, E>, [T: Send, E], T;
}

// ---- ranges ------------------------------------------------------------------------------

pub struct RangeIter<T> {
    pub(crate) range: std::ops::Range<T>,
}

macro_rules! range_impl {
    ($($t:ty),*) => {$(
        impl ParallelIterator for RangeIter<$t> {
            type Item = $t;
            type Seq = std::ops::Range<$t>;
            fn sim_len(&self) -> usize {
                if self.range.end > self.range.start {
                    (self.range.end as i128 - self.range.start as i128) as usize
                } else {
                    0
                }
            }
            fn sim_split_at(self, mid: usize) -> (Self, Self) {
                let m = (self.range.start as i128 + mid as i128) as $t;
                let end = if self.range.end > self.range.start { self.range.end } else { self.range.start };
                (RangeIter { range: self.range.start..m }, RangeIter { range: m..end })
            }
            fn sim_into_seq(self) -> Self::Seq {
                self.range
            }
        }
        impl IndexedParallelIterator for RangeIter<$t> {}
        impl IntoParallelIterator for std::ops::Range<$t> {
            type Iter = RangeIter<$t>;
            type Item = $t;
            fn into_par_iter(self) -> Self::Iter {
                RangeIter { range: self }
            }
        }
        impl IntoParallelIterator for std::ops::RangeInclusive<$t> {
            type Iter = VecIter<$t>;
            type Item = $t;
            fn into_par_iter(self) -> Self::Iter {
                VecIter { vec: self.collect() }
            }
        }
    )*};
}
range_impl!(u8, u16, u32, u64, usize, i8, i16, i32, i64, isize);

// ---- free functions --------------------------------------------------------------------

pub fn once<T: Send>(item: T) -> VecIter<T> {
    VecIter { vec: vec![item] }
}

pub fn empty<T: Send>() -> VecIter<T> {
    VecIter { vec: vec![] }
}

pub fn repeat_n<T: Clone + Send>(item: T, n: usize) -> VecIter<T> {
    VecIter { vec: vec![item; n] }
}

#[allow(non_snake_case)]
pub fn repeatn<T: Clone + Send>(item: T, n: usize) -> VecIter<T> {
    repeat_n(item, n)
}

// ---- tuples of parallel iterators ("multizip") ------------------------------------------

impl<A, B> IntoParallelIterator for (A, B)
where
    A: IntoParallelIterator,
    A::Iter: IndexedParallelIterator,
    B: IntoParallelIterator,
    B::Iter: IndexedParallelIterator,
{
    type Iter = Zip<A::Iter, B::Iter>;
    type Item = (A::Item, B::Item);
    fn into_par_iter(self) -> Self::Iter {
        self.0.into_par_iter().zip(self.1)
    }
}

impl<A, B, C> IntoParallelIterator for (A, B, C)
where
    A: IntoParallelIterator,
    A::Iter: IndexedParallelIterator,
    B: IntoParallelIterator,
    B::Iter: IndexedParallelIterator,
    C: IntoParallelIterator,
    C::Iter: IndexedParallelIterator,
{
    type Iter = VecIter<(A::Item, B::Item, C::Item)>;
    type Item = (A::Item, B::Item, C::Item);
    fn into_par_iter(self) -> Self::Iter {
        // evaluated under the scheduler, flattened sequentially (order is fixed by the contract)
        let v: Vec<((A::Item, B::Item), C::Item)> =
            crate::iter::collect::collect_vec(self.0.into_par_iter().zip(self.1).zip(self.2));
        VecIter {
            vec: v.into_iter().map(|((a, b), c)| (a, b, c)).collect(),
        }
    }
}

// ---- par_drain ---------------------------------------------------------------------------

pub trait ParallelDrainRange<Idx = usize> {
    type Iter: ParallelIterator<Item = Self::Item>;
    type Item: Send;
    fn par_drain<R: std::ops::RangeBounds<Idx>>(self, range: R) -> Self::Iter;
}

impl<'a, T: Send> ParallelDrainRange<usize> for &'a mut Vec<T> {
    type Iter = VecIter<T>;
    type Item = T;
    fn par_drain<R: std::ops::RangeBounds<usize>>(self, range: R) -> VecIter<T> {
        VecIter {
            vec: self.drain(range).collect(),
        }
    }
}

pub trait ParallelDrainFull {
    type Iter: ParallelIterator<Item = Self::Item>;
    type Item: Send;
    fn par_drain(self) -> Self::Iter;
}

impl<'a, T: Send> ParallelDrainFull for &'a mut std::collections::BinaryHeap<T>
where
    T: Ord,
{
    type Iter = VecIter<T>;
    type Item = T;
    fn par_drain(self) -> VecIter<T> {
        VecIter { vec: self.drain().collect() }
    }
}
