//! Parallel iterators: same trait and method names as rayon, modelled as
//! splittable producers over base positions whose leaves are sequential
//! iterators. Semantics = rayon's documented contract and nothing stronger.

use crate::sim::{self, Splitter};
use std::sync::Arc;

mod adapters;
mod collect;
mod sources;

pub use adapters::*;
pub use collect::*;
pub use sources::*;

/// Iterator handed to a leaf: counts items and yields to the scheduler before
/// each of them.
pub struct LeafIter<I> {
    inner: I,
    path: u64,
    start: u64,
    n: u64,
}

impl<I: Iterator> Iterator for LeafIter<I> {
    type Item = I::Item;
    fn next(&mut self) -> Option<I::Item> {
        sim::item_boundary(self.path, self.n, self.start + self.n);
        self.n += 1;
        self.inner.next()
    }
    fn size_hint(&self) -> (usize, Option<usize>) {
        self.inner.size_hint()
    }
}

/// Drive `p`: cut it into leaves (scheduler's choice), run `leaf` on each
/// leaf's sequential iterator on some worker, and combine neighbouring
/// results left-to-right up the split tree with `combine`.
pub(crate) fn bridge<P, R, L, C>(p: P, leaf: &L, combine: &C) -> R
where
    P: ParallelIterator,
    R: Send,
    L: Fn(LeafIter<P::Seq>) -> R + Sync,
    C: Fn(R, R) -> R + Sync,
{
    sim::in_worker(move || helper(p, Splitter::new(), false, 1, 0, leaf, combine))
}

fn helper<P, R, L, C>(p: P, mut sp: Splitter, migrated: bool, path: u64, start: u64, leaf: &L, combine: &C) -> R
where
    P: ParallelIterator,
    R: Send,
    L: Fn(LeafIter<P::Seq>) -> R + Sync,
    C: Fn(R, R) -> R + Sync,
{
    let len = p.sim_len();
    match sim::decide_split(len, p.sim_min_len(), p.sim_max_len(), &mut sp, migrated) {
        Some(mid) => {
            let (l, r) = p.sim_split_at(mid);
            let (ra, rb) = sim::join_context_raw(
                move |m| helper(l, sp, m, path << 1, start, leaf, combine),
                move |m| helper(r, sp, m, (path << 1) | 1, start + mid as u64, leaf, combine),
            );
            combine(ra, rb)
        }
        None => {
            sim::leaf_begin(path, start, len as u64);
            let it = LeafIter {
                inner: p.sim_into_seq(),
                path,
                start,
                n: 0,
            };
            let r = leaf(it);
            sim::leaf_end();
            r
        }
    }
}

// ---------------------------------------------------------------------------
// Conversion traits
// ---------------------------------------------------------------------------

pub trait IntoParallelIterator {
    type Iter: ParallelIterator<Item = Self::Item>;
    type Item: Send;
    fn into_par_iter(self) -> Self::Iter;
}

impl<T: ParallelIterator> IntoParallelIterator for T {
    type Iter = T;
    type Item = T::Item;
    fn into_par_iter(self) -> T {
        self
    }
}

pub trait IntoParallelRefIterator<'data> {
    type Iter: ParallelIterator<Item = Self::Item>;
    type Item: Send + 'data;
    fn par_iter(&'data self) -> Self::Iter;
}

impl<'data, I: 'data + ?Sized> IntoParallelRefIterator<'data> for I
where
    &'data I: IntoParallelIterator,
{
    type Iter = <&'data I as IntoParallelIterator>::Iter;
    type Item = <&'data I as IntoParallelIterator>::Item;
    fn par_iter(&'data self) -> Self::Iter {
        self.into_par_iter()
    }
}

pub trait IntoParallelRefMutIterator<'data> {
    type Iter: ParallelIterator<Item = Self::Item>;
    type Item: Send + 'data;
    fn par_iter_mut(&'data mut self) -> Self::Iter;
}

impl<'data, I: 'data + ?Sized> IntoParallelRefMutIterator<'data> for I
where
    &'data mut I: IntoParallelIterator,
{
    type Iter = <&'data mut I as IntoParallelIterator>::Iter;
    type Item = <&'data mut I as IntoParallelIterator>::Item;
    fn par_iter_mut(&'data mut self) -> Self::Iter {
        self.into_par_iter()
    }
}

pub trait FromParallelIterator<T: Send> {
    fn from_par_iter<I>(par_iter: I) -> Self
    where
        I: IntoParallelIterator<Item = T>;
}

pub trait ParallelExtend<T: Send> {
    fn par_extend<I>(&mut self, par_iter: I)
    where
        I: IntoParallelIterator<Item = T>;
}

/// Option / Result, for the `try_*` family.
pub trait TryLike: Sized {
    type Output;
    fn from_output(o: Self::Output) -> Self;
    fn branch(self) -> Result<Self::Output, Self>;
}
impl<T> TryLike for Option<T> {
    type Output = T;
    fn from_output(o: T) -> Self {
        Some(o)
    }
    fn branch(self) -> Result<T, Self> {
        match self {
            Some(v) => Ok(v),
            None => Err(None),
        }
    }
}
impl<T, E> TryLike for Result<T, E> {
    type Output = T;
    fn from_output(o: T) -> Self {
        Ok(o)
    }
    fn branch(self) -> Result<T, Self> {
        match self {
            Ok(v) => Ok(v),
            Err(e) => Err(Err(e)),
        }
    }
}

// ---------------------------------------------------------------------------
// ParallelIterator
// ---------------------------------------------------------------------------

pub trait ParallelIterator: Sized + Send {
    type Item: Send;

    #[doc(hidden)]
    type Seq: Iterator<Item = Self::Item>;
    /// Number of base positions (an upper bound on the number of items).
    #[doc(hidden)]
    fn sim_len(&self) -> usize;
    /// Split at base position `mid` (0 <= mid <= sim_len).
    #[doc(hidden)]
    fn sim_split_at(self, mid: usize) -> (Self, Self);
    #[doc(hidden)]
    fn sim_into_seq(self) -> Self::Seq;
    #[doc(hidden)]
    fn sim_min_len(&self) -> usize {
        1
    }
    #[doc(hidden)]
    fn sim_max_len(&self) -> usize {
        usize::MAX
    }

    // ---- consumers ---------------------------------------------------------

    fn for_each<OP>(self, op: OP)
    where
        OP: Fn(Self::Item) + Sync + Send,
    {
        bridge(self, &|it| it.for_each(&op), &|(), ()| ())
    }

    fn for_each_with<OP, T>(self, init: T, op: OP)
    where
        OP: Fn(&mut T, Self::Item) + Sync + Send,
        T: Send + Clone,
    {
        self.map_with(init, op).for_each(|()| ())
    }

    fn for_each_init<OP, INIT, T>(self, init: INIT, op: OP)
    where
        OP: Fn(&mut T, Self::Item) + Sync + Send,
        INIT: Fn() -> T + Sync + Send,
    {
        self.map_init(init, op).for_each(|()| ())
    }

    fn try_for_each<OP, R>(self, op: OP) -> R
    where
        OP: Fn(Self::Item) -> R + Sync + Send,
        R: TryLike<Output = ()> + Send,
    {
        let r: Option<R> = bridge(
            self,
            &|it| {
                for x in it {
                    if let Err(e) = op(x).branch() {
                        return Some(e);
                    }
                }
                None
            },
            &|a: Option<R>, b: Option<R>| match (a, b) {
                (Some(a), Some(b)) => {
                    // any failure may be reported
                    sim::note_find_any();
                    if sim::choose(2) == 0 {
                        Some(a)
                    } else {
                        Some(b)
                    }
                }
                (a, b) => a.or(b),
            },
        );
        r.unwrap_or_else(|| R::from_output(()))
    }

    fn count(self) -> usize {
        bridge(self, &|it| it.count(), &|a, b| a + b)
    }

    fn reduce<OP, ID>(self, identity: ID, op: OP) -> Self::Item
    where
        OP: Fn(Self::Item, Self::Item) -> Self::Item + Sync + Send,
        ID: Fn() -> Self::Item + Sync + Send,
    {
        bridge(self, &|it| it.fold(identity(), &op), &|a, b| op(a, b))
    }

    fn reduce_with<OP>(self, op: OP) -> Option<Self::Item>
    where
        OP: Fn(Self::Item, Self::Item) -> Self::Item + Sync + Send,
    {
        bridge(self, &|it| it.reduce(&op), &|a, b| match (a, b) {
            (Some(a), Some(b)) => Some(op(a, b)),
            (a, b) => a.or(b),
        })
    }

    fn try_reduce<T, OP, ID>(self, identity: ID, op: OP) -> Self::Item
    where
        OP: Fn(T, T) -> Self::Item + Sync + Send,
        ID: Fn() -> T + Sync + Send,
        Self::Item: TryLike<Output = T>,
    {
        let step = |acc: Self::Item, x: Self::Item| -> Self::Item {
            match acc.branch() {
                Err(e) => e,
                Ok(a) => match x.branch() {
                    Err(e) => e,
                    Ok(b) => op(a, b),
                },
            }
        };
        bridge(
            self,
            &|it| it.fold(Self::Item::from_output(identity()), &step),
            &|a, b| step(a, b),
        )
    }

    fn sum<S>(self) -> S
    where
        S: Send + std::iter::Sum<Self::Item> + std::iter::Sum<S>,
    {
        bridge(self, &|it| it.sum::<S>(), &|a: S, b: S| [a, b].into_iter().sum::<S>())
    }

    fn product<P>(self) -> P
    where
        P: Send + std::iter::Product<Self::Item> + std::iter::Product<P>,
    {
        bridge(self, &|it| it.product::<P>(), &|a: P, b: P| [a, b].into_iter().product::<P>())
    }

    fn min(self) -> Option<Self::Item>
    where
        Self::Item: Ord,
    {
        self.min_by(|a, b| a.cmp(b))
    }

    fn min_by<F>(self, f: F) -> Option<Self::Item>
    where
        F: Sync + Send + Fn(&Self::Item, &Self::Item) -> std::cmp::Ordering,
    {
        self.reduce_with(|a, b| match f(&a, &b) {
            std::cmp::Ordering::Greater => b,
            _ => a,
        })
    }

    fn min_by_key<K, F>(self, f: F) -> Option<Self::Item>
    where
        K: Ord + Send,
        F: Sync + Send + Fn(&Self::Item) -> K,
    {
        self.map(|x| (f(&x), x))
            .reduce_with(|a, b| match (a.0).cmp(&b.0) {
                std::cmp::Ordering::Greater => b,
                _ => a,
            })
            .map(|(_, x)| x)
    }

    fn max(self) -> Option<Self::Item>
    where
        Self::Item: Ord,
    {
        self.max_by(|a, b| a.cmp(b))
    }

    fn max_by<F>(self, f: F) -> Option<Self::Item>
    where
        F: Sync + Send + Fn(&Self::Item, &Self::Item) -> std::cmp::Ordering,
    {
        self.reduce_with(|a, b| match f(&a, &b) {
            std::cmp::Ordering::Greater => a,
            _ => b,
        })
    }

    fn max_by_key<K, F>(self, f: F) -> Option<Self::Item>
    where
        K: Ord + Send,
        F: Sync + Send + Fn(&Self::Item) -> K,
    {
        self.map(|x| (f(&x), x))
            .reduce_with(|a, b| match (a.0).cmp(&b.0) {
                std::cmp::Ordering::Greater => a,
                _ => b,
            })
            .map(|(_, x)| x)
    }

    fn find_any<P>(self, predicate: P) -> Option<Self::Item>
    where
        P: Fn(&Self::Item) -> bool + Sync + Send,
    {
        bridge(self, &|mut it| it.find(&predicate), &|a, b| match (a, b) {
            (Some(a), Some(b)) => {
                sim::note_find_any();
                if sim::choose(2) == 0 {
                    Some(a)
                } else {
                    Some(b)
                }
            }
            (a, b) => a.or(b),
        })
    }

    fn find_first<P>(self, predicate: P) -> Option<Self::Item>
    where
        P: Fn(&Self::Item) -> bool + Sync + Send,
    {
        bridge(self, &|mut it| it.find(&predicate), &|a, b| a.or(b))
    }

    fn find_last<P>(self, predicate: P) -> Option<Self::Item>
    where
        P: Fn(&Self::Item) -> bool + Sync + Send,
    {
        bridge(self, &|it| it.filter(&predicate).last(), &|a, b| b.or(a))
    }

    fn find_map_any<P, R>(self, predicate: P) -> Option<R>
    where
        P: Fn(Self::Item) -> Option<R> + Sync + Send,
        R: Send,
    {
        self.filter_map(predicate).find_any(|_| true)
    }

    fn find_map_first<P, R>(self, predicate: P) -> Option<R>
    where
        P: Fn(Self::Item) -> Option<R> + Sync + Send,
        R: Send,
    {
        self.filter_map(predicate).find_first(|_| true)
    }

    fn any<P>(self, predicate: P) -> bool
    where
        P: Fn(Self::Item) -> bool + Sync + Send,
    {
        bridge(self, &|mut it| it.any(&predicate), &|a, b| a || b)
    }

    fn all<P>(self, predicate: P) -> bool
    where
        P: Fn(Self::Item) -> bool + Sync + Send,
    {
        bridge(self, &|mut it| it.all(&predicate), &|a, b| a && b)
    }

    fn collect<C>(self) -> C
    where
        C: FromParallelIterator<Self::Item>,
    {
        C::from_par_iter(self)
    }

    fn unzip<A, B, FromA, FromB>(self) -> (FromA, FromB)
    where
        Self: ParallelIterator<Item = (A, B)>,
        FromA: Default + Send + ParallelExtend<A>,
        FromB: Default + Send + ParallelExtend<B>,
        A: Send,
        B: Send,
    {
        let (va, vb): (Vec<A>, Vec<B>) = bridge(
            self,
            &|it| it.unzip::<A, B, Vec<A>, Vec<B>>(),
            &|mut a: (Vec<A>, Vec<B>), mut b: (Vec<A>, Vec<B>)| {
                a.0.append(&mut b.0);
                a.1.append(&mut b.1);
                a
            },
        );
        let mut fa = FromA::default();
        let mut fb = FromB::default();
        fa.par_extend(va);
        fb.par_extend(vb);
        (fa, fb)
    }

    fn partition<A, B, P>(self, predicate: P) -> (A, B)
    where
        A: Default + Send + ParallelExtend<Self::Item>,
        B: Default + Send + ParallelExtend<Self::Item>,
        P: Fn(&Self::Item) -> bool + Sync + Send,
    {
        let (va, vb): (Vec<Self::Item>, Vec<Self::Item>) = bridge(
            self,
            &|it| it.partition::<Vec<Self::Item>, _>(&predicate),
            &|mut a: (Vec<Self::Item>, Vec<Self::Item>), mut b: (Vec<Self::Item>, Vec<Self::Item>)| {
                a.0.append(&mut b.0);
                a.1.append(&mut b.1);
                a
            },
        );
        let mut fa = A::default();
        let mut fb = B::default();
        fa.par_extend(va);
        fb.par_extend(vb);
        (fa, fb)
    }

    // ---- adapters ----------------------------------------------------------

    fn map<F, R>(self, map_op: F) -> Map<Self, F>
    where
        F: Fn(Self::Item) -> R + Sync + Send,
        R: Send,
    {
        Map {
            base: self,
            f: Arc::new(map_op),
        }
    }

    fn map_with<F, T, R>(self, init: T, map_op: F) -> MapWith<Self, T, F>
    where
        F: Fn(&mut T, Self::Item) -> R + Sync + Send,
        T: Send + Clone,
        R: Send,
    {
        MapWith {
            base: self,
            item: init,
            f: Arc::new(map_op),
        }
    }

    fn map_init<F, INIT, T, R>(self, init: INIT, map_op: F) -> MapInit<Self, INIT, F>
    where
        F: Fn(&mut T, Self::Item) -> R + Sync + Send,
        INIT: Fn() -> T + Sync + Send,
        R: Send,
    {
        MapInit {
            base: self,
            init: Arc::new(init),
            f: Arc::new(map_op),
        }
    }

    fn cloned<'a, T>(self) -> Cloned<Self>
    where
        T: 'a + Clone + Send,
        Self: ParallelIterator<Item = &'a T>,
    {
        Cloned { base: self }
    }

    fn copied<'a, T>(self) -> Copied<Self>
    where
        T: 'a + Copy + Send,
        Self: ParallelIterator<Item = &'a T>,
    {
        Copied { base: self }
    }

    fn inspect<OP>(self, inspect_op: OP) -> Inspect<Self, OP>
    where
        OP: Fn(&Self::Item) + Sync + Send,
    {
        Inspect {
            base: self,
            f: Arc::new(inspect_op),
        }
    }

    fn update<F>(self, update_op: F) -> Update<Self, F>
    where
        F: Fn(&mut Self::Item) + Sync + Send,
    {
        Update {
            base: self,
            f: Arc::new(update_op),
        }
    }

    fn filter<P>(self, filter_op: P) -> Filter<Self, P>
    where
        P: Fn(&Self::Item) -> bool + Sync + Send,
    {
        Filter {
            base: self,
            f: Arc::new(filter_op),
        }
    }

    fn filter_map<P, R>(self, filter_op: P) -> FilterMap<Self, P>
    where
        P: Fn(Self::Item) -> Option<R> + Sync + Send,
        R: Send,
    {
        FilterMap {
            base: self,
            f: Arc::new(filter_op),
        }
    }

    fn flat_map<F, PI>(self, map_op: F) -> FlatMap<Self, F>
    where
        F: Fn(Self::Item) -> PI + Sync + Send,
        PI: IntoParallelIterator,
    {
        FlatMap {
            base: self,
            f: Arc::new(map_op),
        }
    }

    fn flat_map_iter<F, SI>(self, map_op: F) -> FlatMapIter<Self, F>
    where
        F: Fn(Self::Item) -> SI + Sync + Send,
        SI: IntoIterator,
        SI::Item: Send,
    {
        FlatMapIter {
            base: self,
            f: Arc::new(map_op),
        }
    }

    fn flatten(self) -> Flatten<Self>
    where
        Self::Item: IntoParallelIterator,
    {
        Flatten { base: self }
    }

    fn flatten_iter(self) -> FlattenIter<Self>
    where
        Self::Item: IntoIterator,
        <Self::Item as IntoIterator>::Item: Send,
    {
        FlattenIter { base: self }
    }

    fn fold<T, ID, F>(self, identity: ID, fold_op: F) -> Fold<Self, ID, F>
    where
        F: Fn(T, Self::Item) -> T + Sync + Send,
        ID: Fn() -> T + Sync + Send,
        T: Send,
    {
        Fold {
            base: self,
            id: Arc::new(identity),
            f: Arc::new(fold_op),
        }
    }

    fn try_fold<T, R, ID, F>(self, identity: ID, fold_op: F) -> TryFold<Self, ID, F>
    where
        F: Fn(T, Self::Item) -> R + Sync + Send,
        ID: Fn() -> T + Sync + Send,
        R: TryLike<Output = T> + Send,
        T: Send,
    {
        TryFold {
            base: self,
            id: Arc::new(identity),
            f: Arc::new(fold_op),
        }
    }

    /// Any `n` items (rayon: the first `n` to arrive). Model: the upstream is
    /// evaluated under the scheduler, then a decision-drawn subset of size `n` is
    /// kept, relative order preserved.
    fn take_any(self, n: usize) -> crate::iter::sources::VecIter<Self::Item> {
        let all = collect::collect_vec(self);
        let len = all.len();
        if n >= len {
            return crate::iter::sources::VecIter { vec: all };
        }
        // choose which to drop: walk once, keep with the right conditional probability
        let mut keep = vec![false; len];
        let mut need = n;
        for i in 0..len {
            let left = len - i;
            if need > 0 && crate::sim::choose(left as u64) < need as u64 {
                keep[i] = true;
                need -= 1;
            }
        }
        let mut it = keep.into_iter();
        crate::iter::sources::VecIter {
            vec: all.into_iter().filter(|_| it.next().unwrap_or(false)).collect(),
        }
    }

    fn skip_any(self, n: usize) -> crate::iter::sources::VecIter<Self::Item> {
        let all = collect::collect_vec(self);
        let len = all.len();
        let keep_n = len.saturating_sub(n);
        let mut keep = vec![false; len];
        let mut need = keep_n;
        for i in 0..len {
            let left = len - i;
            if need > 0 && crate::sim::choose(left as u64) < need as u64 {
                keep[i] = true;
                need -= 1;
            }
        }
        let mut it = keep.into_iter();
        crate::iter::sources::VecIter {
            vec: all.into_iter().filter(|_| it.next().unwrap_or(false)).collect(),
        }
    }

    fn collect_vec_list(self) -> std::collections::LinkedList<Vec<Self::Item>> {
        let mut l = std::collections::LinkedList::new();
        l.push_back(collect::collect_vec(self));
        l
    }

    fn fold_with<F, T>(self, init: T, fold_op: F) -> FoldWith<Self, T, F>
    where
        F: Fn(T, Self::Item) -> T + Sync + Send,
        T: Send + Clone,
    {
        FoldWith {
            base: self,
            item: init,
            f: Arc::new(fold_op),
        }
    }

    fn chain<C>(self, chain: C) -> Chain<Self, C::Iter>
    where
        C: IntoParallelIterator<Item = Self::Item>,
    {
        Chain {
            a: self,
            b: chain.into_par_iter(),
        }
    }

    fn while_some<T>(self) -> WhileSome<Self>
    where
        Self: ParallelIterator<Item = Option<T>>,
        T: Send,
    {
        WhileSome { base: self }
    }

    fn panic_fuse(self) -> Self {
        self
    }

    fn opt_len(&self) -> Option<usize> {
        None
    }
}

// ---------------------------------------------------------------------------
// IndexedParallelIterator: sim_len is the exact number of items
// ---------------------------------------------------------------------------

pub trait IndexedParallelIterator: ParallelIterator {
    /// a0, b0, a1, b1, ... then the rest of the longer one. The upstreams are
    /// evaluated under the scheduler; the interleaving itself is order-fixed.
    fn interleave<I>(self, other: I) -> crate::iter::sources::VecIter<Self::Item>
    where
        I: IntoParallelIterator<Item = Self::Item>,
        I::Iter: IndexedParallelIterator<Item = Self::Item>,
    {
        let a = collect::collect_vec(self);
        let b = collect::collect_vec(other.into_par_iter());
        let mut out = Vec::with_capacity(a.len() + b.len());
        let (mut ia, mut ib) = (a.into_iter(), b.into_iter());
        loop {
            match (ia.next(), ib.next()) {
                (None, None) => break,
                (x, y) => {
                    out.extend(x);
                    out.extend(y);
                }
            }
        }
        crate::iter::sources::VecIter { vec: out }
    }

    fn interleave_shortest<I>(self, other: I) -> crate::iter::sources::VecIter<Self::Item>
    where
        I: IntoParallelIterator<Item = Self::Item>,
        I::Iter: IndexedParallelIterator<Item = Self::Item>,
    {
        let a = collect::collect_vec(self);
        let b = collect::collect_vec(other.into_par_iter());
        let mut out = vec![];
        let (mut ia, mut ib) = (a.into_iter(), b.into_iter());
        loop {
            match ia.next() {
                None => break,
                Some(x) => out.push(x),
            }
            match ib.next() {
                None => break,
                Some(y) => out.push(y),
            }
        }
        crate::iter::sources::VecIter { vec: out }
    }

    /// Sequential fold of consecutive chunks of `chunk_size` items, one result per chunk.
    fn fold_chunks<T, ID, F>(self, chunk_size: usize, identity: ID, fold_op: F) -> crate::iter::sources::VecIter<T>
    where
        ID: Fn() -> T + Send + Sync,
        F: Fn(T, Self::Item) -> T + Send + Sync,
        T: Send,
    {
        assert!(chunk_size != 0, "chunk_size must not be zero");
        let chunks = collect::collect_vec(self.chunks(chunk_size));
        let folded = collect::collect_vec(
            crate::iter::sources::VecIter { vec: chunks }.map(move |c| c.into_iter().fold(identity(), &fold_op)),
        );
        crate::iter::sources::VecIter { vec: folded }
    }

    fn len(&self) -> usize {
        self.sim_len()
    }

    fn enumerate(self) -> Enumerate<Self> {
        Enumerate {
            base: self,
            offset: 0,
        }
    }

    fn zip<Z>(self, zip_op: Z) -> Zip<Self, Z::Iter>
    where
        Z: IntoParallelIterator,
        Z::Iter: IndexedParallelIterator,
    {
        let b = zip_op.into_par_iter();
        let n = self.sim_len().min(b.sim_len());
        Zip {
            a: self.sim_split_at(n).0,
            b: b.sim_split_at(n).0,
        }
    }

    fn zip_eq<Z>(self, zip_op: Z) -> Zip<Self, Z::Iter>
    where
        Z: IntoParallelIterator,
        Z::Iter: IndexedParallelIterator,
    {
        let b = zip_op.into_par_iter();
        assert_eq!(self.sim_len(), b.sim_len(), "iterators must have the same length");
        Zip { a: self, b }
    }

    fn take(self, n: usize) -> Self {
        let n = n.min(self.sim_len());
        self.sim_split_at(n).0
    }

    fn skip(self, n: usize) -> Self {
        let n = n.min(self.sim_len());
        self.sim_split_at(n).1
    }

    fn rev(self) -> Rev<Self> {
        Rev { base: self }
    }

    fn chunks(self, chunk_size: usize) -> Chunks<Self> {
        assert!(chunk_size != 0, "chunk_size must not be zero");
        Chunks {
            base: self,
            size: chunk_size,
        }
    }

    fn step_by(self, step: usize) -> StepBy<Self> {
        assert!(step != 0);
        StepBy { base: self, step }
    }

    fn with_min_len(self, min: usize) -> MinLen<Self> {
        MinLen { base: self, min }
    }

    fn with_max_len(self, max: usize) -> MaxLen<Self> {
        MaxLen { base: self, max }
    }

    fn collect_into_vec(self, target: &mut Vec<Self::Item>) {
        target.clear();
        let v: Vec<Self::Item> = self.collect();
        *target = v;
    }

    fn unzip_into_vecs<A, B>(self, left: &mut Vec<A>, right: &mut Vec<B>)
    where
        Self: IndexedParallelIterator<Item = (A, B)>,
        A: Send,
        B: Send,
    {
        let (a, b): (Vec<A>, Vec<B>) = self.unzip();
        *left = a;
        *right = b;
    }

    fn position_any<P>(self, predicate: P) -> Option<usize>
    where
        P: Fn(Self::Item) -> bool + Sync + Send,
    {
        self.enumerate()
            .filter_map(move |(i, x)| if predicate(x) { Some(i) } else { None })
            .find_any(|_| true)
    }

    fn position_first<P>(self, predicate: P) -> Option<usize>
    where
        P: Fn(Self::Item) -> bool + Sync + Send,
    {
        self.enumerate()
            .filter_map(move |(i, x)| if predicate(x) { Some(i) } else { None })
            .find_first(|_| true)
    }

    fn position_last<P>(self, predicate: P) -> Option<usize>
    where
        P: Fn(Self::Item) -> bool + Sync + Send,
    {
        self.enumerate()
            .filter_map(move |(i, x)| if predicate(x) { Some(i) } else { None })
            .find_last(|_| true)
    }

    fn cmp<I>(self, other: I) -> std::cmp::Ordering
    where
        I: IntoParallelIterator<Item = Self::Item>,
        I::Iter: IndexedParallelIterator,
        Self::Item: Ord,
    {
        let a: Vec<Self::Item> = self.collect();
        let b: Vec<Self::Item> = other.into_par_iter().collect();
        a.cmp(&b)
    }

    fn eq<I>(self, other: I) -> bool
    where
        I: IntoParallelIterator,
        I::Iter: IndexedParallelIterator,
        Self::Item: PartialEq<I::Item>,
    {
        let a: Vec<Self::Item> = self.collect();
        let b: Vec<I::Item> = other.into_par_iter().collect();
        a.len() == b.len() && a.iter().zip(b.iter()).all(|(x, y)| x == y)
    }
}

/// `iter.par_bridge()`
pub trait ParallelBridge: Sized {
    fn par_bridge(self) -> IterBridge<Self>;
}

impl<T: Iterator + Send> ParallelBridge for T
where
    T::Item: Send,
{
    fn par_bridge(self) -> IterBridge<Self> {
        IterBridge::new(self)
    }
}
