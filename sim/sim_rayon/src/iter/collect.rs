use super::*;
use std::collections::{BTreeMap, BTreeSet, BinaryHeap, HashMap, HashSet, LinkedList, VecDeque};
use std::hash::{BuildHasher, Hash};

/// Collect into a Vec: leaf results concatenated in leaf (= index) order, which
/// is what rayon guarantees for `Vec` whether or not the iterator is indexed.
pub(crate) fn collect_vec<I: ParallelIterator>(it: I) -> Vec<I::Item> {
    bridge(it, &|leaf| leaf.collect::<Vec<_>>(), &|mut a: Vec<I::Item>, mut b: Vec<I::Item>| {
        a.append(&mut b);
        a
    })
}

impl<T: Send> FromParallelIterator<T> for Vec<T> {
    fn from_par_iter<I>(par_iter: I) -> Self
    where
        I: IntoParallelIterator<Item = T>,
    {
        collect_vec(par_iter.into_par_iter())
    }
}

impl<T: Send> ParallelExtend<T> for Vec<T> {
    fn par_extend<I>(&mut self, par_iter: I)
    where
        I: IntoParallelIterator<Item = T>,
    {
        let mut v = collect_vec(par_iter.into_par_iter());
        self.append(&mut v);
    }
}

impl<T: Send> FromParallelIterator<T> for Box<[T]> {
    fn from_par_iter<I>(par_iter: I) -> Self
    where
        I: IntoParallelIterator<Item = T>,
    {
        collect_vec(par_iter.into_par_iter()).into_boxed_slice()
    }
}

macro_rules! via_vec_collect {
    ($($ty:ty, [$($g:tt)*], $item:ty);* $(;)?) => {$(
        impl<$($g)*> FromParallelIterator<$item> for $ty {
            fn from_par_iter<I>(par_iter: I) -> Self
            where
                I: IntoParallelIterator<Item = $item>,
            {
                collect_vec(par_iter.into_par_iter()).into_iter().collect()
            }
        }
        impl<$($g)*> ParallelExtend<$item> for $ty {
            fn par_extend<I>(&mut self, par_iter: I)
            where
                I: IntoParallelIterator<Item = $item>,
            {
                self.extend(collect_vec(par_iter.into_par_iter()));
            }
        }
    )*};
}
via_vec_collect! {
    VecDeque<T>, [T: Send], T;
    LinkedList<T>, [T: Send], T;
    BinaryHeap<T>, [T: Send + Ord], T;
    BTreeSet<T>, [T: Send + Ord], T;
    BTreeMap<K, V>, [K: Send + Ord, V: Send], (K, V);
    HashSet<T, S>, [T: Send + Eq + Hash, S: BuildHasher + Default + Send], T;
    HashMap<K, V, S>, [K: Send + Eq + Hash, V: Send, S: BuildHasher + Default + Send], (K, V);
}

impl FromParallelIterator<char> for String {
    fn from_par_iter<I>(par_iter: I) -> Self
    where
        I: IntoParallelIterator<Item = char>,
    {
        collect_vec(par_iter.into_par_iter()).into_iter().collect()
    }
}
impl FromParallelIterator<String> for String {
    fn from_par_iter<I>(par_iter: I) -> Self
    where
        I: IntoParallelIterator<Item = String>,
    {
        collect_vec(par_iter.into_par_iter()).concat()
    }
}
impl<'a> FromParallelIterator<&'a str> for String {
    fn from_par_iter<I>(par_iter: I) -> Self
    where
        I: IntoParallelIterator<Item = &'a str>,
    {
        collect_vec(par_iter.into_par_iter()).concat()
    }
}

impl FromParallelIterator<()> for () {
    fn from_par_iter<I>(par_iter: I) -> Self
    where
        I: IntoParallelIterator<Item = ()>,
    {
        par_iter.into_par_iter().for_each(|()| ())
    }
}

impl<C, T> FromParallelIterator<Option<T>> for Option<C>
where
    C: FromParallelIterator<T>,
    T: Send,
{
    fn from_par_iter<I>(par_iter: I) -> Self
    where
        I: IntoParallelIterator<Item = Option<T>>,
    {
        let v = collect_vec(par_iter.into_par_iter());
        let mut out = Vec::with_capacity(v.len());
        for x in v {
            out.push(x?);
        }
        Some(C::from_par_iter(out))
    }
}

impl<C, T, E> FromParallelIterator<Result<T, E>> for Result<C, E>
where
    C: FromParallelIterator<T>,
    T: Send,
    E: Send,
{
    fn from_par_iter<I>(par_iter: I) -> Self
    where
        I: IntoParallelIterator<Item = Result<T, E>>,
    {
        // rayon reports *some* error when there are several
        let v = collect_vec(par_iter.into_par_iter());
        let n_err = v.iter().filter(|x| x.is_err()).count();
        if n_err == 0 {
            let out: Vec<T> = v.into_iter().map(|x| x.ok().unwrap()).collect();
            return Ok(C::from_par_iter(out));
        }
        let pick = if n_err > 1 {
            crate::sim::note_find_any();
            crate::sim::choose(n_err as u64) as usize
        } else {
            0
        };
        let e = v.into_iter().filter_map(|x| x.err()).nth(pick).unwrap();
        Err(e)
    }
}

impl<A, B, FromA, FromB> FromParallelIterator<(A, B)> for (FromA, FromB)
where
    A: Send,
    B: Send,
    FromA: Send + FromParallelIterator<A>,
    FromB: Send + FromParallelIterator<B>,
{
    fn from_par_iter<I>(par_iter: I) -> Self
    where
        I: IntoParallelIterator<Item = (A, B)>,
    {
        let v = collect_vec(par_iter.into_par_iter());
        let (a, b): (Vec<A>, Vec<B>) = v.into_iter().unzip();
        (FromA::from_par_iter(a), FromB::from_par_iter(b))
    }
}
