use super::*;
use std::sync::Mutex;

// Each adapter forwards splitting to its base and wraps the base's
// sequential iterator. Closures are shared between the pieces through `Arc`.

macro_rules! forward_split {
    ($S:ident { $($field:ident),* } ; arcs { $($arc:ident),* } ; clones { $($cl:ident),* }) => {
        fn sim_len(&self) -> usize { self.base.sim_len() }
        fn sim_min_len(&self) -> usize { self.base.sim_min_len() }
        fn sim_max_len(&self) -> usize { self.base.sim_max_len() }
        fn sim_split_at(self, mid: usize) -> (Self, Self) {
            let (l, r) = self.base.sim_split_at(mid);
            (
                $S { base: l, $($arc: self.$arc.clone(),)* $($cl: self.$cl.clone(),)* $($field: self.$field,)* },
                $S { base: r, $($arc: self.$arc,)* $($cl: self.$cl,)* $($field: self.$field,)* },
            )
        }
    };
}

// ---- map -------------------------------------------------------------------

pub struct Map<I, F> {
    pub(crate) base: I,
    pub(crate) f: Arc<F>,
}
pub struct MapSeq<S, F> {
    base: S,
    f: Arc<F>,
}
impl<S: Iterator, F: Fn(S::Item) -> R, R> Iterator for MapSeq<S, F> {
    type Item = R;
    fn next(&mut self) -> Option<R> {
        self.base.next().map(|x| (self.f)(x))
    }
    fn size_hint(&self) -> (usize, Option<usize>) {
        self.base.size_hint()
    }
}
impl<I, F, R> ParallelIterator for Map<I, F>
where
    I: ParallelIterator,
    F: Fn(I::Item) -> R + Sync + Send,
    R: Send,
{
    type Item = R;
    type Seq = MapSeq<I::Seq, F>;
    forward_split!(Map {} ; arcs { f } ; clones {});
    fn sim_into_seq(self) -> Self::Seq {
        MapSeq {
            base: self.base.sim_into_seq(),
            f: self.f,
        }
    }
}
impl<I, F, R> IndexedParallelIterator for Map<I, F>
where
    I: IndexedParallelIterator,
    F: Fn(I::Item) -> R + Sync + Send,
    R: Send,
{
}

// ---- map_with / map_init ---------------------------------------------------

pub struct MapWith<I, T, F> {
    pub(crate) base: I,
    pub(crate) item: T,
    pub(crate) f: Arc<F>,
}
pub struct MapWithSeq<S, T, F> {
    base: S,
    item: T,
    f: Arc<F>,
}
impl<S: Iterator, T, F: Fn(&mut T, S::Item) -> R, R> Iterator for MapWithSeq<S, T, F> {
    type Item = R;
    fn next(&mut self) -> Option<R> {
        let x = self.base.next()?;
        Some((self.f)(&mut self.item, x))
    }
}
impl<I, T, F, R> ParallelIterator for MapWith<I, T, F>
where
    I: ParallelIterator,
    T: Send + Clone,
    F: Fn(&mut T, I::Item) -> R + Sync + Send,
    R: Send,
{
    type Item = R;
    type Seq = MapWithSeq<I::Seq, T, F>;
    forward_split!(MapWith {} ; arcs { f } ; clones { item });
    fn sim_into_seq(self) -> Self::Seq {
        MapWithSeq {
            base: self.base.sim_into_seq(),
            item: self.item,
            f: self.f,
        }
    }
}
impl<I, T, F, R> IndexedParallelIterator for MapWith<I, T, F>
where
    I: IndexedParallelIterator,
    T: Send + Clone,
    F: Fn(&mut T, I::Item) -> R + Sync + Send,
    R: Send,
{
}

pub struct MapInit<I, INIT, F> {
    pub(crate) base: I,
    pub(crate) init: Arc<INIT>,
    pub(crate) f: Arc<F>,
}
impl<I, INIT, T, F, R> ParallelIterator for MapInit<I, INIT, F>
where
    I: ParallelIterator,
    INIT: Fn() -> T + Sync + Send,
    F: Fn(&mut T, I::Item) -> R + Sync + Send,
    R: Send,
{
    type Item = R;
    type Seq = MapWithSeq<I::Seq, T, F>;
    forward_split!(MapInit {} ; arcs { init, f } ; clones {});
    fn sim_into_seq(self) -> Self::Seq {
        MapWithSeq {
            base: self.base.sim_into_seq(),
            item: (self.init)(),
            f: self.f,
        }
    }
}
impl<I, INIT, T, F, R> IndexedParallelIterator for MapInit<I, INIT, F>
where
    I: IndexedParallelIterator,
    INIT: Fn() -> T + Sync + Send,
    F: Fn(&mut T, I::Item) -> R + Sync + Send,
    R: Send,
{
}

// ---- cloned / copied ---------------------------------------------------------

pub struct Cloned<I> {
    pub(crate) base: I,
}
impl<'a, T, I> ParallelIterator for Cloned<I>
where
    I: ParallelIterator<Item = &'a T>,
    T: 'a + Clone + Send,
{
    type Item = T;
    type Seq = std::iter::Cloned<I::Seq>;
    forward_split!(Cloned {} ; arcs {} ; clones {});
    fn sim_into_seq(self) -> Self::Seq {
        self.base.sim_into_seq().cloned()
    }
}
impl<'a, T, I> IndexedParallelIterator for Cloned<I>
where
    I: IndexedParallelIterator<Item = &'a T>,
    T: 'a + Clone + Send,
{
}

pub struct Copied<I> {
    pub(crate) base: I,
}
impl<'a, T, I> ParallelIterator for Copied<I>
where
    I: ParallelIterator<Item = &'a T>,
    T: 'a + Copy + Send,
{
    type Item = T;
    type Seq = std::iter::Copied<I::Seq>;
    forward_split!(Copied {} ; arcs {} ; clones {});
    fn sim_into_seq(self) -> Self::Seq {
        self.base.sim_into_seq().copied()
    }
}
impl<'a, T, I> IndexedParallelIterator for Copied<I>
where
    I: IndexedParallelIterator<Item = &'a T>,
    T: 'a + Copy + Send,
{
}

// ---- inspect / update -----------------------------------------------------------

pub struct Inspect<I, F> {
    pub(crate) base: I,
    pub(crate) f: Arc<F>,
}
pub struct InspectSeq<S, F> {
    base: S,
    f: Arc<F>,
}
impl<S: Iterator, F: Fn(&S::Item)> Iterator for InspectSeq<S, F> {
    type Item = S::Item;
    fn next(&mut self) -> Option<S::Item> {
        let x = self.base.next()?;
        (self.f)(&x);
        Some(x)
    }
}
impl<I, F> ParallelIterator for Inspect<I, F>
where
    I: ParallelIterator,
    F: Fn(&I::Item) + Sync + Send,
{
    type Item = I::Item;
    type Seq = InspectSeq<I::Seq, F>;
    forward_split!(Inspect {} ; arcs { f } ; clones {});
    fn sim_into_seq(self) -> Self::Seq {
        InspectSeq {
            base: self.base.sim_into_seq(),
            f: self.f,
        }
    }
}
impl<I, F> IndexedParallelIterator for Inspect<I, F>
where
    I: IndexedParallelIterator,
    F: Fn(&I::Item) + Sync + Send,
{
}

pub struct Update<I, F> {
    pub(crate) base: I,
    pub(crate) f: Arc<F>,
}
pub struct UpdateSeq<S, F> {
    base: S,
    f: Arc<F>,
}
impl<S: Iterator, F: Fn(&mut S::Item)> Iterator for UpdateSeq<S, F> {
    type Item = S::Item;
    fn next(&mut self) -> Option<S::Item> {
        let mut x = self.base.next()?;
        (self.f)(&mut x);
        Some(x)
    }
}
impl<I, F> ParallelIterator for Update<I, F>
where
    I: ParallelIterator,
    F: Fn(&mut I::Item) + Sync + Send,
{
    type Item = I::Item;
    type Seq = UpdateSeq<I::Seq, F>;
    forward_split!(Update {} ; arcs { f } ; clones {});
    fn sim_into_seq(self) -> Self::Seq {
        UpdateSeq {
            base: self.base.sim_into_seq(),
            f: self.f,
        }
    }
}
impl<I, F> IndexedParallelIterator for Update<I, F>
where
    I: IndexedParallelIterator,
    F: Fn(&mut I::Item) + Sync + Send,
{
}

// ---- filter / filter_map ---------------------------------------------------------

pub struct Filter<I, F> {
    pub(crate) base: I,
    pub(crate) f: Arc<F>,
}
pub struct FilterSeq<S, F> {
    base: S,
    f: Arc<F>,
}
impl<S: Iterator, F: Fn(&S::Item) -> bool> Iterator for FilterSeq<S, F> {
    type Item = S::Item;
    fn next(&mut self) -> Option<S::Item> {
        loop {
            let x = self.base.next()?;
            if (self.f)(&x) {
                return Some(x);
            }
        }
    }
}
impl<I, F> ParallelIterator for Filter<I, F>
where
    I: ParallelIterator,
    F: Fn(&I::Item) -> bool + Sync + Send,
{
    type Item = I::Item;
    type Seq = FilterSeq<I::Seq, F>;
    forward_split!(Filter {} ; arcs { f } ; clones {});
    fn sim_into_seq(self) -> Self::Seq {
        FilterSeq {
            base: self.base.sim_into_seq(),
            f: self.f,
        }
    }
}

pub struct FilterMap<I, F> {
    pub(crate) base: I,
    pub(crate) f: Arc<F>,
}
pub struct FilterMapSeq<S, F> {
    base: S,
    f: Arc<F>,
}
impl<S: Iterator, F: Fn(S::Item) -> Option<R>, R> Iterator for FilterMapSeq<S, F> {
    type Item = R;
    fn next(&mut self) -> Option<R> {
        loop {
            let x = self.base.next()?;
            if let Some(r) = (self.f)(x) {
                return Some(r);
            }
        }
    }
}
impl<I, F, R> ParallelIterator for FilterMap<I, F>
where
    I: ParallelIterator,
    F: Fn(I::Item) -> Option<R> + Sync + Send,
    R: Send,
{
    type Item = R;
    type Seq = FilterMapSeq<I::Seq, F>;
    forward_split!(FilterMap {} ; arcs { f } ; clones {});
    fn sim_into_seq(self) -> Self::Seq {
        FilterMapSeq {
            base: self.base.sim_into_seq(),
            f: self.f,
        }
    }
}

// ---- flat_map / flatten ------------------------------------------------------------

pub struct FlatMap<I, F> {
    pub(crate) base: I,
    pub(crate) f: Arc<F>,
}
pub struct FlatMapSeq<S, F, PI: IntoParallelIterator> {
    base: S,
    f: Arc<F>,
    cur: Option<<PI::Iter as ParallelIterator>::Seq>,
}
impl<S: Iterator, F: Fn(S::Item) -> PI, PI: IntoParallelIterator> Iterator for FlatMapSeq<S, F, PI> {
    type Item = PI::Item;
    fn next(&mut self) -> Option<PI::Item> {
        loop {
            if let Some(c) = self.cur.as_mut() {
                if let Some(x) = c.next() {
                    return Some(x);
                }
                self.cur = None;
            }
            let x = self.base.next()?;
            self.cur = Some((self.f)(x).into_par_iter().sim_into_seq());
        }
    }
}
impl<I, F, PI> ParallelIterator for FlatMap<I, F>
where
    I: ParallelIterator,
    F: Fn(I::Item) -> PI + Sync + Send,
    PI: IntoParallelIterator,
{
    type Item = PI::Item;
    type Seq = FlatMapSeq<I::Seq, F, PI>;
    forward_split!(FlatMap {} ; arcs { f } ; clones {});
    fn sim_into_seq(self) -> Self::Seq {
        FlatMapSeq {
            base: self.base.sim_into_seq(),
            f: self.f,
            cur: None,
        }
    }
}

pub struct FlatMapIter<I, F> {
    pub(crate) base: I,
    pub(crate) f: Arc<F>,
}
pub struct FlatMapIterSeq<S, F, SI: IntoIterator> {
    base: S,
    f: Arc<F>,
    cur: Option<SI::IntoIter>,
}
impl<S: Iterator, F: Fn(S::Item) -> SI, SI: IntoIterator> Iterator for FlatMapIterSeq<S, F, SI> {
    type Item = SI::Item;
    fn next(&mut self) -> Option<SI::Item> {
        loop {
            if let Some(c) = self.cur.as_mut() {
                if let Some(x) = c.next() {
                    return Some(x);
                }
                self.cur = None;
            }
            let x = self.base.next()?;
            self.cur = Some((self.f)(x).into_iter());
        }
    }
}
impl<I, F, SI> ParallelIterator for FlatMapIter<I, F>
where
    I: ParallelIterator,
    F: Fn(I::Item) -> SI + Sync + Send,
    SI: IntoIterator,
    SI::Item: Send,
{
    type Item = SI::Item;
    type Seq = FlatMapIterSeq<I::Seq, F, SI>;
    forward_split!(FlatMapIter {} ; arcs { f } ; clones {});
    fn sim_into_seq(self) -> Self::Seq {
        FlatMapIterSeq {
            base: self.base.sim_into_seq(),
            f: self.f,
            cur: None,
        }
    }
}

pub struct Flatten<I> {
    pub(crate) base: I,
}
pub struct FlattenSeq<S: Iterator>
where
    S::Item: IntoParallelIterator,
{
    base: S,
    cur: Option<<<S::Item as IntoParallelIterator>::Iter as ParallelIterator>::Seq>,
}
impl<S: Iterator> Iterator for FlattenSeq<S>
where
    S::Item: IntoParallelIterator,
{
    type Item = <S::Item as IntoParallelIterator>::Item;
    fn next(&mut self) -> Option<Self::Item> {
        loop {
            if let Some(c) = self.cur.as_mut() {
                if let Some(x) = c.next() {
                    return Some(x);
                }
                self.cur = None;
            }
            let x = self.base.next()?;
            self.cur = Some(x.into_par_iter().sim_into_seq());
        }
    }
}
impl<I> ParallelIterator for Flatten<I>
where
    I: ParallelIterator,
    I::Item: IntoParallelIterator,
{
    type Item = <I::Item as IntoParallelIterator>::Item;
    type Seq = FlattenSeq<I::Seq>;
    forward_split!(Flatten {} ; arcs {} ; clones {});
    fn sim_into_seq(self) -> Self::Seq {
        FlattenSeq {
            base: self.base.sim_into_seq(),
            cur: None,
        }
    }
}

pub struct FlattenIter<I> {
    pub(crate) base: I,
}
impl<I> ParallelIterator for FlattenIter<I>
where
    I: ParallelIterator,
    I::Item: IntoIterator,
    <I::Item as IntoIterator>::Item: Send,
{
    type Item = <I::Item as IntoIterator>::Item;
    type Seq = std::iter::Flatten<I::Seq>;
    forward_split!(FlattenIter {} ; arcs {} ; clones {});
    fn sim_into_seq(self) -> Self::Seq {
        self.base.sim_into_seq().flatten()
    }
}

// ---- fold / fold_with: one accumulator per leaf --------------------------------------

pub struct Fold<I, ID, F> {
    pub(crate) base: I,
    pub(crate) id: Arc<ID>,
    pub(crate) f: Arc<F>,
}
impl<I, ID, F, T> ParallelIterator for Fold<I, ID, F>
where
    I: ParallelIterator,
    ID: Fn() -> T + Sync + Send,
    F: Fn(T, I::Item) -> T + Sync + Send,
    T: Send,
{
    type Item = T;
    type Seq = std::iter::Once<T>;
    forward_split!(Fold {} ; arcs { id, f } ; clones {});
    fn sim_into_seq(self) -> Self::Seq {
        let f = self.f;
        std::iter::once(self.base.sim_into_seq().fold((self.id)(), |a, x| f(a, x)))
    }
}

pub struct FoldWith<I, T, F> {
    pub(crate) base: I,
    pub(crate) item: T,
    pub(crate) f: Arc<F>,
}
impl<I, T, F> ParallelIterator for FoldWith<I, T, F>
where
    I: ParallelIterator,
    F: Fn(T, I::Item) -> T + Sync + Send,
    T: Send + Clone,
{
    type Item = T;
    type Seq = std::iter::Once<T>;
    forward_split!(FoldWith {} ; arcs { f } ; clones { item });
    fn sim_into_seq(self) -> Self::Seq {
        let f = self.f;
        std::iter::once(self.base.sim_into_seq().fold(self.item, |a, x| f(a, x)))
    }
}

// ---- try_fold ---------------------------------------------------------------------------

pub struct TryFold<I, ID, F> {
    pub(crate) base: I,
    pub(crate) id: Arc<ID>,
    pub(crate) f: Arc<F>,
}
impl<I, ID, F, T, R> ParallelIterator for TryFold<I, ID, F>
where
    I: ParallelIterator,
    ID: Fn() -> T + Sync + Send,
    F: Fn(T, I::Item) -> R + Sync + Send,
    R: TryLike<Output = T> + Send,
    T: Send,
{
    type Item = R;
    type Seq = std::iter::Once<R>;
    forward_split!(TryFold {} ; arcs { id, f } ; clones {});
    fn sim_into_seq(self) -> Self::Seq {
        let f = self.f;
        let mut acc = (self.id)();
        for x in self.base.sim_into_seq() {
            match f(acc, x).branch() {
                Ok(a) => acc = a,
                Err(e) => return std::iter::once(e),
            }
        }
        std::iter::once(R::from_output(acc))
    }
}

// ---- while_some ---------------------------------------------------------------------------

pub struct WhileSome<I> {
    pub(crate) base: I,
}
pub struct WhileSomeSeq<S> {
    base: S,
    done: bool,
}
impl<S: Iterator<Item = Option<T>>, T> Iterator for WhileSomeSeq<S> {
    type Item = T;
    fn next(&mut self) -> Option<T> {
        if self.done {
            return None;
        }
        match self.base.next()? {
            Some(x) => Some(x),
            None => {
                self.done = true;
                None
            }
        }
    }
}
impl<I, T> ParallelIterator for WhileSome<I>
where
    I: ParallelIterator<Item = Option<T>>,
    T: Send,
{
    type Item = T;
    type Seq = WhileSomeSeq<I::Seq>;
    forward_split!(WhileSome {} ; arcs {} ; clones {});
    fn sim_into_seq(self) -> Self::Seq {
        WhileSomeSeq {
            base: self.base.sim_into_seq(),
            done: false,
        }
    }
}

// ---- chain -------------------------------------------------------------------------------

pub struct Chain<A, B> {
    pub(crate) a: A,
    pub(crate) b: B,
}
impl<A, B> ParallelIterator for Chain<A, B>
where
    A: ParallelIterator,
    B: ParallelIterator<Item = A::Item>,
{
    type Item = A::Item;
    type Seq = std::iter::Chain<A::Seq, B::Seq>;
    fn sim_len(&self) -> usize {
        self.a.sim_len() + self.b.sim_len()
    }
    fn sim_split_at(self, mid: usize) -> (Self, Self) {
        let la = self.a.sim_len();
        if mid <= la {
            let (a1, a2) = self.a.sim_split_at(mid);
            let (b1, b2) = self.b.sim_split_at(0);
            (Chain { a: a1, b: b1 }, Chain { a: a2, b: b2 })
        } else {
            let (a1, a2) = self.a.sim_split_at(la);
            let (b1, b2) = self.b.sim_split_at(mid - la);
            (Chain { a: a1, b: b1 }, Chain { a: a2, b: b2 })
        }
    }
    fn sim_into_seq(self) -> Self::Seq {
        self.a.sim_into_seq().chain(self.b.sim_into_seq())
    }
}
impl<A, B> IndexedParallelIterator for Chain<A, B>
where
    A: IndexedParallelIterator,
    B: IndexedParallelIterator<Item = A::Item>,
{
}

// ---- enumerate / zip ----------------------------------------------------------------------

pub struct Enumerate<I> {
    pub(crate) base: I,
    pub(crate) offset: usize,
}
pub struct EnumerateSeq<S> {
    base: S,
    n: usize,
}
impl<S: Iterator> Iterator for EnumerateSeq<S> {
    type Item = (usize, S::Item);
    fn next(&mut self) -> Option<Self::Item> {
        let x = self.base.next()?;
        let i = self.n;
        self.n += 1;
        Some((i, x))
    }
    fn size_hint(&self) -> (usize, Option<usize>) {
        self.base.size_hint()
    }
}
impl<I: IndexedParallelIterator> ParallelIterator for Enumerate<I> {
    type Item = (usize, I::Item);
    type Seq = EnumerateSeq<I::Seq>;
    fn sim_len(&self) -> usize {
        self.base.sim_len()
    }
    fn sim_min_len(&self) -> usize {
        self.base.sim_min_len()
    }
    fn sim_max_len(&self) -> usize {
        self.base.sim_max_len()
    }
    fn sim_split_at(self, mid: usize) -> (Self, Self) {
        let (l, r) = self.base.sim_split_at(mid);
        (
            Enumerate {
                base: l,
                offset: self.offset,
            },
            Enumerate {
                base: r,
                offset: self.offset + mid,
            },
        )
    }
    fn sim_into_seq(self) -> Self::Seq {
        EnumerateSeq {
            base: self.base.sim_into_seq(),
            n: self.offset,
        }
    }
}
impl<I: IndexedParallelIterator> IndexedParallelIterator for Enumerate<I> {}

pub struct Zip<A, B> {
    pub(crate) a: A,
    pub(crate) b: B,
}
impl<A: IndexedParallelIterator, B: IndexedParallelIterator> ParallelIterator for Zip<A, B> {
    type Item = (A::Item, B::Item);
    type Seq = std::iter::Zip<A::Seq, B::Seq>;
    fn sim_len(&self) -> usize {
        self.a.sim_len().min(self.b.sim_len())
    }
    fn sim_min_len(&self) -> usize {
        self.a.sim_min_len().max(self.b.sim_min_len())
    }
    fn sim_max_len(&self) -> usize {
        self.a.sim_max_len().min(self.b.sim_max_len())
    }
    fn sim_split_at(self, mid: usize) -> (Self, Self) {
        let (a1, a2) = self.a.sim_split_at(mid);
        let (b1, b2) = self.b.sim_split_at(mid);
        (Zip { a: a1, b: b1 }, Zip { a: a2, b: b2 })
    }
    fn sim_into_seq(self) -> Self::Seq {
        self.a.sim_into_seq().zip(self.b.sim_into_seq())
    }
}
impl<A: IndexedParallelIterator, B: IndexedParallelIterator> IndexedParallelIterator for Zip<A, B> {}

// ---- rev / chunks / step_by ----------------------------------------------------------------

pub struct Rev<I> {
    pub(crate) base: I,
}
impl<I: IndexedParallelIterator> ParallelIterator for Rev<I> {
    type Item = I::Item;
    type Seq = std::vec::IntoIter<I::Item>;
    fn sim_len(&self) -> usize {
        self.base.sim_len()
    }
    fn sim_split_at(self, mid: usize) -> (Self, Self) {
        let n = self.base.sim_len();
        let (l, r) = self.base.sim_split_at(n - mid);
        (Rev { base: r }, Rev { base: l })
    }
    fn sim_into_seq(self) -> Self::Seq {
        let mut v: Vec<I::Item> = self.base.sim_into_seq().collect();
        v.reverse();
        v.into_iter()
    }
}
impl<I: IndexedParallelIterator> IndexedParallelIterator for Rev<I> {}

pub struct Chunks<I> {
    pub(crate) base: I,
    pub(crate) size: usize,
}
pub struct ChunksSeq<S> {
    base: S,
    size: usize,
}
impl<S: Iterator> Iterator for ChunksSeq<S> {
    type Item = Vec<S::Item>;
    fn next(&mut self) -> Option<Vec<S::Item>> {
        let mut v = Vec::with_capacity(self.size);
        for _ in 0..self.size {
            match self.base.next() {
                Some(x) => v.push(x),
                None => break,
            }
        }
        if v.is_empty() {
            None
        } else {
            Some(v)
        }
    }
}
impl<I: IndexedParallelIterator> ParallelIterator for Chunks<I> {
    type Item = Vec<I::Item>;
    type Seq = ChunksSeq<I::Seq>;
    fn sim_len(&self) -> usize {
        let n = self.base.sim_len();
        (n + self.size - 1) / self.size
    }
    fn sim_split_at(self, mid: usize) -> (Self, Self) {
        let at = (mid * self.size).min(self.base.sim_len());
        let (l, r) = self.base.sim_split_at(at);
        (
            Chunks {
                base: l,
                size: self.size,
            },
            Chunks {
                base: r,
                size: self.size,
            },
        )
    }
    fn sim_into_seq(self) -> Self::Seq {
        ChunksSeq {
            base: self.base.sim_into_seq(),
            size: self.size,
        }
    }
}
impl<I: IndexedParallelIterator> IndexedParallelIterator for Chunks<I> {}

pub struct StepBy<I> {
    pub(crate) base: I,
    pub(crate) step: usize,
}
impl<I: IndexedParallelIterator> ParallelIterator for StepBy<I> {
    type Item = I::Item;
    type Seq = std::iter::StepBy<I::Seq>;
    fn sim_len(&self) -> usize {
        let n = self.base.sim_len();
        (n + self.step - 1) / self.step
    }
    fn sim_split_at(self, mid: usize) -> (Self, Self) {
        let at = (mid * self.step).min(self.base.sim_len());
        let (l, r) = self.base.sim_split_at(at);
        (
            StepBy {
                base: l,
                step: self.step,
            },
            StepBy {
                base: r,
                step: self.step,
            },
        )
    }
    fn sim_into_seq(self) -> Self::Seq {
        self.base.sim_into_seq().step_by(self.step)
    }
}
impl<I: IndexedParallelIterator> IndexedParallelIterator for StepBy<I> {}

// ---- with_min_len / with_max_len ------------------------------------------------------------

pub struct MinLen<I> {
    pub(crate) base: I,
    pub(crate) min: usize,
}
impl<I: IndexedParallelIterator> ParallelIterator for MinLen<I> {
    type Item = I::Item;
    type Seq = I::Seq;
    fn sim_len(&self) -> usize {
        self.base.sim_len()
    }
    fn sim_min_len(&self) -> usize {
        self.min.max(self.base.sim_min_len())
    }
    fn sim_max_len(&self) -> usize {
        self.base.sim_max_len()
    }
    fn sim_split_at(self, mid: usize) -> (Self, Self) {
        let (l, r) = self.base.sim_split_at(mid);
        (
            MinLen {
                base: l,
                min: self.min,
            },
            MinLen {
                base: r,
                min: self.min,
            },
        )
    }
    fn sim_into_seq(self) -> Self::Seq {
        self.base.sim_into_seq()
    }
}
impl<I: IndexedParallelIterator> IndexedParallelIterator for MinLen<I> {}

pub struct MaxLen<I> {
    pub(crate) base: I,
    pub(crate) max: usize,
}
impl<I: IndexedParallelIterator> ParallelIterator for MaxLen<I> {
    type Item = I::Item;
    type Seq = I::Seq;
    fn sim_len(&self) -> usize {
        self.base.sim_len()
    }
    fn sim_min_len(&self) -> usize {
        self.base.sim_min_len()
    }
    fn sim_max_len(&self) -> usize {
        self.max.min(self.base.sim_max_len())
    }
    fn sim_split_at(self, mid: usize) -> (Self, Self) {
        let (l, r) = self.base.sim_split_at(mid);
        (
            MaxLen {
                base: l,
                max: self.max,
            },
            MaxLen {
                base: r,
                max: self.max,
            },
        )
    }
    fn sim_into_seq(self) -> Self::Seq {
        self.base.sim_into_seq()
    }
}
impl<I: IndexedParallelIterator> IndexedParallelIterator for MaxLen<I> {}

// ---- par_bridge: items pulled from a shared sequential iterator ---------------------------------

pub struct IterBridge<T> {
    shared: Arc<Mutex<Option<T>>>,
    slots: usize,
}
impl<T> IterBridge<T> {
    pub(crate) fn new(it: T) -> Self {
        IterBridge {
            shared: Arc::new(Mutex::new(Some(it))),
            slots: crate::sim::current_num_threads().max(1) * 2,
        }
    }
}
pub struct IterBridgeSeq<T> {
    shared: Arc<Mutex<Option<T>>>,
}
impl<T: Iterator> Iterator for IterBridgeSeq<T> {
    type Item = T::Item;
    fn next(&mut self) -> Option<T::Item> {
        crate::sim::shared_access();
        let mut g = self.shared.lock().unwrap_or_else(|e| e.into_inner());
        let r = g.as_mut().and_then(|it| it.next());
        if r.is_none() {
            *g = None;
        }
        r
    }
}
impl<T: Iterator + Send> ParallelIterator for IterBridge<T>
where
    T::Item: Send,
{
    type Item = T::Item;
    type Seq = IterBridgeSeq<T>;
    fn sim_len(&self) -> usize {
        self.slots
    }
    fn sim_split_at(self, mid: usize) -> (Self, Self) {
        (
            IterBridge {
                shared: self.shared.clone(),
                slots: mid,
            },
            IterBridge {
                shared: self.shared,
                slots: self.slots - mid,
            },
        )
    }
    fn sim_into_seq(self) -> Self::Seq {
        IterBridgeSeq { shared: self.shared }
    }
}
