//! Interposed system-call wrappers.
//!
//! std blocks a thread in exactly two ways that matter to a simulation whose threads run one at a
//! time: `futex` (every `Mutex`, `RwLock`, `Condvar`, `Once`, channel, `thread::park`; reached
//! through libc's variadic `syscall` function) and `nanosleep` / `clock_nanosleep`
//! (`thread::sleep`). A definition of those symbols in the executable takes precedence over
//! libc.so, as for `clock_gettime` in `clock`. On every thread that the simulator does not
//! schedule, and while a thread is inside the simulator's own code, they are plain pass-throughs.
//! On a worker of a simulation
//!
//! * `FUTEX_WAIT[_BITSET]` parks the worker *in the simulator* (`sim::futex_wait_emulated`): the
//!   scheduler knows it cannot run until somebody's `FUTEX_WAKE` on that address, so a lock held
//!   by a preempted worker no longer wedges the simulation, and a lock-order deadlock of the
//!   simulated program is detected as such;
//! * `FUTEX_WAKE` (from any thread of the process) first releases simulated waiters;
//! * a sleep advances the simulated clock instead of the wall clock and is a scheduling point.
//!
//! `pthread_create` / `pthread_join` are interposed too: a thread that a simulated thread creates (the
//! tree under test starting a `std::thread` of its own) is *adopted* - it gets a slot in the
//! scheduler, waits for the token before its start routine runs, yields at the same points as a
//! worker and gives the token away for good when the routine returns; a join waits in the
//! simulator. Without this such a thread would run in real parallel with the one token holder and
//! the run would no longer be a function of the decisions.
//!
//! x86-64 Linux only (the raw `syscall` instruction; on this ABI a variadic call passes integer
//! arguments exactly like a fixed-arity one, so `syscall` can be defined with seven parameters).

use libc::{c_int, c_long};

const FUTEX_WAIT: c_int = 0;
const FUTEX_WAKE: c_int = 1;
const FUTEX_WAIT_BITSET: c_int = 9;
const FUTEX_WAKE_BITSET: c_int = 10;
const FUTEX_CLOCK_REALTIME: c_int = 256;
const FUTEX_CMD_MASK: c_int = !(128 | 256);

/// The real system call, errno convention of libc's `syscall`.
///
/// # Safety
/// As for the system call itself.
#[inline]
pub unsafe fn raw6(num: c_long, a1: usize, a2: usize, a3: usize, a4: usize, a5: usize, a6: usize) -> c_long {
    let ret: isize;
    std::arch::asm!(
        "syscall",
        inlateout("rax") num as isize => ret,
        in("rdi") a1, in("rsi") a2, in("rdx") a3, in("r10") a4, in("r8") a5, in("r9") a6,
        lateout("rcx") _, lateout("r11") _,
        options(nostack)
    );
    if (-4095..0).contains(&ret) {
        *libc::__errno_location() = (-ret) as c_int;
        -1
    } else {
        ret as c_long
    }
}

/// Convenience for the three-argument calls of `clock`.
///
/// # Safety
/// As for the system call itself.
pub unsafe fn raw_syscall<A: Copy, B: Copy>(num: c_long, a: A, b: B) -> c_long {
    let a1: usize = to_usize(a);
    let a2: usize = to_usize(b);
    raw6(num, a1, a2, 0, 0, 0, 0)
}

#[inline]
fn to_usize<T: Copy>(v: T) -> usize {
    // integers and thin pointers of at most 8 bytes
    let mut out = 0usize;
    let n = std::mem::size_of::<T>().min(8);
    unsafe {
        std::ptr::copy_nonoverlapping(&v as *const T as *const u8, &mut out as *mut usize as *mut u8, n);
    }
    if n == 4 {
        // sign-extend 32-bit values like the C ABI does for int arguments
        out = out as u32 as i32 as isize as usize;
    }
    out
}

fn timespec_ns(ts: *const libc::timespec) -> Option<u64> {
    if ts.is_null() {
        return None;
    }
    let t = unsafe { &*ts };
    Some((t.tv_sec.max(0) as u64).saturating_mul(1_000_000_000).saturating_add(t.tv_nsec.max(0) as u64))
}

fn now_ns(clk: libc::clockid_t) -> u64 {
    // through the interposed clock_gettime: simulated threads see simulated time
    let mut ts = libc::timespec { tv_sec: 0, tv_nsec: 0 };
    unsafe {
        crate::clock::clock_gettime(clk, &mut ts);
    }
    ts.tv_sec as u64 * 1_000_000_000 + ts.tv_nsec as u64
}

/// Interposed `syscall(2)` wrapper.
///
/// # Safety
/// Same contract as the C function.
#[no_mangle]
pub unsafe extern "C" fn syscall(num: c_long, a1: usize, a2: usize, a3: usize, a4: usize, a5: usize, a6: usize) -> c_long {
    if num == libc::SYS_futex {
        let op = a2 as c_int;
        let cmd = op & FUTEX_CMD_MASK;
        if cmd == FUTEX_WAKE || cmd == FUTEX_WAKE_BITSET {
            let n = (a3 as u32).min(i32::MAX as u32) as usize;
            let k = crate::sim::futex_wake_emulated(a1, n);
            if k >= n {
                return k as c_long;
            }
            let r = raw6(num, a1, a2, n - k, a4, a5, a6);
            return if r < 0 {
                if k > 0 {
                    k as c_long
                } else {
                    r
                }
            } else {
                r + k as c_long
            };
        }
        if (cmd == FUTEX_WAIT || cmd == FUTEX_WAIT_BITSET) && !bbguard::is_internal() && (bbguard::is_worker() || crate::sim::is_sim_driver()) {
            let left = timespec_ns(a4 as *const libc::timespec).map(|t| {
                if cmd == FUTEX_WAIT {
                    t // relative
                } else {
                    let clk = if op & FUTEX_CLOCK_REALTIME != 0 { libc::CLOCK_REALTIME } else { libc::CLOCK_MONOTONIC };
                    t.saturating_sub(now_ns(clk))
                }
            });
            match crate::sim::futex_wait_emulated(a1, a3 as u32, left) {
                crate::sim::FutexWait::PassThrough => {}
                crate::sim::FutexWait::Again => {
                    *libc::__errno_location() = libc::EAGAIN;
                    return -1;
                }
                crate::sim::FutexWait::Woken => return 0,
                crate::sim::FutexWait::TimedOut => {
                    *libc::__errno_location() = libc::ETIMEDOUT;
                    return -1;
                }
            }
        }
    }
    raw6(num, a1, a2, a3, a4, a5, a6)
}

/// Interposed `sched_yield` (`std::thread::yield_now`).
///
/// # Safety
/// None needed.
#[no_mangle]
pub unsafe extern "C" fn sched_yield() -> c_int {
    if !bbguard::is_internal() && (bbguard::is_worker() || crate::sim::is_sim_driver()) && crate::sim::spin_yield_emulated() {
        return 0;
    }
    raw6(libc::SYS_sched_yield, 0, 0, 0, 0, 0, 0) as c_int
}

/// Interposed `nanosleep`.
///
/// # Safety
/// Same contract as the C function.
#[no_mangle]
pub unsafe extern "C" fn nanosleep(req: *const libc::timespec, rem: *mut libc::timespec) -> c_int {
    if !bbguard::is_internal() {
        if let Some(ns) = timespec_ns(req) {
            if crate::sim::sleep_emulated(ns) {
                if !rem.is_null() {
                    (*rem).tv_sec = 0;
                    (*rem).tv_nsec = 0;
                }
                return 0;
            }
        }
    }
    raw6(libc::SYS_nanosleep, req as usize, rem as usize, 0, 0, 0, 0) as c_int
}

/// Interposed `clock_nanosleep` (returns the error number, not -1).
///
/// # Safety
/// Same contract as the C function.
#[no_mangle]
pub unsafe extern "C" fn clock_nanosleep(clk: libc::clockid_t, flags: c_int, req: *const libc::timespec, rem: *mut libc::timespec) -> c_int {
    if !bbguard::is_internal() {
        if let Some(t) = timespec_ns(req) {
            let ns = if flags & libc::TIMER_ABSTIME != 0 { t.saturating_sub(now_ns(clk)) } else { t };
            if crate::sim::sleep_emulated(ns) {
                return 0;
            }
        }
    }
    let save = *libc::__errno_location();
    let r = raw6(libc::SYS_clock_nanosleep, clk as usize, flags as usize, req as usize, rem as usize, 0, 0);
    if r < 0 {
        let e = *libc::__errno_location();
        *libc::__errno_location() = save;
        e
    } else {
        0
    }
}

// ---------------------------------------------------------------------------
// pthread_create / pthread_join
// ---------------------------------------------------------------------------

type StartRoutine = extern "C" fn(*mut libc::c_void) -> *mut libc::c_void;
type CreateFn = unsafe extern "C" fn(*mut libc::pthread_t, *const libc::pthread_attr_t, StartRoutine, *mut libc::c_void) -> c_int;
type JoinFn = unsafe extern "C" fn(libc::pthread_t, *mut *mut libc::c_void) -> c_int;

fn real(name: &'static [u8]) -> usize {
    unsafe { libc::dlsym(libc::RTLD_NEXT, name.as_ptr() as *const libc::c_char) as usize }
}

struct AdoptedStart {
    adopted: crate::sim::Adopted,
    start: StartRoutine,
    arg: *mut libc::c_void,
}

/// (pthread_t, exit flag) of the adopted threads that have not been joined yet.
struct Table {
    locked: std::sync::atomic::AtomicBool,
    rows: std::cell::UnsafeCell<Vec<(libc::pthread_t, std::sync::Arc<std::sync::atomic::AtomicU8>)>>,
}
unsafe impl Sync for Table {}
static ADOPTED: Table = Table {
    locked: std::sync::atomic::AtomicBool::new(false),
    rows: std::cell::UnsafeCell::new(Vec::new()),
};
impl Table {
    fn with<R>(&self, f: impl FnOnce(&mut Vec<(libc::pthread_t, std::sync::Arc<std::sync::atomic::AtomicU8>)>) -> R) -> R {
        use std::sync::atomic::Ordering::SeqCst;
        while self.locked.compare_exchange_weak(false, true, SeqCst, SeqCst).is_err() {
            std::hint::spin_loop();
        }
        let r = f(unsafe { &mut *self.rows.get() });
        self.locked.store(false, SeqCst);
        r
    }
}

extern "C" fn adopted_trampoline(p: *mut libc::c_void) -> *mut libc::c_void {
    let b = unsafe { Box::from_raw(p as *mut AdoptedStart) };
    b.adopted.enter();
    // (the thread leaves the simulation from the destructor of a pthread key set by `enter`: after
    // its thread-local destructors and std's own clean-up)
    (b.start)(b.arg)
}

/// Interposed `pthread_create`.
///
/// # Safety
/// Same contract as the C function.
#[no_mangle]
pub unsafe extern "C" fn pthread_create(
    thread: *mut libc::pthread_t,
    attr: *const libc::pthread_attr_t,
    start: StartRoutine,
    arg: *mut libc::c_void,
) -> c_int {
    let f = real(b"pthread_create\0");
    let f: CreateFn = std::mem::transmute::<usize, CreateFn>(f);
    if !bbguard::is_internal() && (bbguard::is_worker() || crate::sim::is_sim_driver()) {
        if let Some(adopted) = crate::sim::adopt_thread() {
            bbguard::enter_internal();
            let flag = adopted.exit_flag.clone();
            let b = Box::into_raw(Box::new(AdoptedStart { adopted, start, arg }));
            let rc = f(thread, attr, adopted_trampoline, b as *mut libc::c_void);
            if rc != 0 {
                let b = Box::from_raw(b);
                b.adopted.cancel();
            } else {
                let t = *thread;
                // (a pthread_t is reused once its thread is gone: a row with the same value is stale)
                ADOPTED.with(|rows| {
                    rows.retain(|r| r.0 != t);
                    rows.push((t, flag));
                });
            }
            bbguard::leave_internal();
            return rc;
        }
    }
    f(thread, attr, start, arg)
}

/// Interposed `pthread_join`.
///
/// # Safety
/// Same contract as the C function.
#[no_mangle]
pub unsafe extern "C" fn pthread_join(thread: libc::pthread_t, ret: *mut *mut libc::c_void) -> c_int {
    let f = real(b"pthread_join\0");
    let f: JoinFn = std::mem::transmute::<usize, JoinFn>(f);
    let flag = ADOPTED.with(|rows| rows.iter().position(|r| r.0 == thread).map(|i| rows.swap_remove(i).1));
    if std::env::var_os("SIM_DEBUG").is_some() {
        eprintln!("pthread_join {:x}: adopted={} internal={} worker={} driver={}", thread, flag.is_some(), bbguard::is_internal(), bbguard::is_worker(), crate::sim::is_sim_driver());
    }
    if let Some(flag) = flag {
        if !bbguard::is_internal() && (bbguard::is_worker() || crate::sim::is_sim_driver()) {
            crate::sim::wait_for_exit(&flag);
        }
    }
    f(thread, ret)
}


// ---------------------------------------------------------------------------
// The machine-size seam
// ---------------------------------------------------------------------------
//
// `std::thread::available_parallelism` (and anything built on it) asks the kernel for the calling
// thread's CPU affinity mask through libc's `sched_getaffinity`. A tree that sizes a pool of its
// own, a chunk length or a "small input" threshold from that number behaves differently on another
// machine; on this one the number never changes, so no amount of scheduling would show it. The
// executable's definition below passes the call through, except on threads that belong to a
// simulation (the same mark as for the clock), which see the machine the current run was given:
// 1 .. 256 CPUs, part of the run's plan and therefore of its replay file.

static SIM_CPUS: std::sync::atomic::AtomicUsize = std::sync::atomic::AtomicUsize::new(0);
static AFFINITY_READS: std::sync::atomic::AtomicU64 = std::sync::atomic::AtomicU64::new(0);

/// Number of CPUs simulated threads see from now on (0 = the real machine).
pub fn set_sim_cpus(n: usize) {
    SIM_CPUS.store(n, std::sync::atomic::Ordering::SeqCst);
}

/// Affinity-mask reads made by simulated threads while a simulated machine size was set.
pub fn affinity_reads() -> u64 {
    AFFINITY_READS.load(std::sync::atomic::Ordering::Relaxed)
}

/// Interposed `sched_getaffinity` (see above).
///
/// # Safety
/// Same contract as the C function: `mask` must be valid for `cpusetsize` bytes of writes.
#[no_mangle]
pub unsafe extern "C" fn sched_getaffinity(pid: libc::pid_t, cpusetsize: libc::size_t, mask: *mut libc::cpu_set_t) -> c_int {
    let r = raw6(libc::SYS_sched_getaffinity, pid as usize, cpusetsize, mask as usize, 0, 0, 0);
    if r < 0 || mask.is_null() {
        return if r < 0 { -1 } else { 0 };
    }
    // the raw call returns the number of bytes it wrote; glibc's wrapper clears the rest
    let bytes = mask as *mut u8;
    let written = (r as usize).min(cpusetsize);
    std::ptr::write_bytes(bytes.add(written), 0, cpusetsize - written);
    let n = SIM_CPUS.load(std::sync::atomic::Ordering::SeqCst);
    if n != 0 && crate::clock::thread_on_sim_time() {
        AFFINITY_READS.fetch_add(1, std::sync::atomic::Ordering::Relaxed);
        std::ptr::write_bytes(bytes, 0, cpusetsize);
        for i in 0..n.min(cpusetsize * 8) {
            *bytes.add(i / 8) |= 1 << (i % 8);
        }
    }
    0
}
