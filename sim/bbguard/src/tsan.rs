//! ThreadSanitizer's atomic interface, re-purposed: the instrumented copies of the library are also
//! run through LLVM's TSan pass restricted to atomics (`forceattrs` + `tsan` with memory accesses,
//! function entry/exit and mem-intrinsics switched off), so every atomic load, store,
//! read-modify-write, compare-exchange and fence of the library - and of whatever std code was
//! inlined into it, e.g. the fast paths of `Mutex` and `Arc` - arrives here as a call. Each
//! function is a scheduling point (`atomic_point`) followed by the operation itself with the
//! ordering the program asked for. This file is generated (see the header of `lib.rs`).

#![allow(clippy::missing_safety_doc)]

use crate::{atomic_point, dbg_atomic};
use std::sync::atomic::{fence, compiler_fence, AtomicU16, AtomicU32, AtomicU64, AtomicU8, Ordering};

#[inline]
fn ord_load(mo: i32) -> Ordering {
    match mo {
        0 => Ordering::Relaxed,
        1 | 2 => Ordering::Acquire,
        _ => Ordering::SeqCst,
    }
}
#[inline]
fn ord_store(mo: i32) -> Ordering {
    match mo {
        0 => Ordering::Relaxed,
        3 => Ordering::Release,
        _ => Ordering::SeqCst,
    }
}
#[inline]
fn ord_rmw(mo: i32) -> Ordering {
    match mo {
        0 => Ordering::Relaxed,
        1 | 2 => Ordering::Acquire,
        3 => Ordering::Release,
        4 => Ordering::AcqRel,
        _ => Ordering::SeqCst,
    }
}

#[no_mangle]
pub unsafe extern "C" fn __tsan_atomic_thread_fence(mo: i32) {
    atomic_point(0);
    match mo {
        0 => {}
        _ => fence(ord_rmw(mo)),
    }
}
#[no_mangle]
pub unsafe extern "C" fn __tsan_atomic_signal_fence(mo: i32) {
    match mo {
        0 => {}
        _ => compiler_fence(ord_rmw(mo)),
    }
}


#[no_mangle]
pub unsafe extern "C" fn __tsan_atomic8_load(a: *const u8, mo: i32) -> u8 {
    atomic_point(a as usize);
    let r = (*(a as *const AtomicU8)).load(ord_load(mo));
    dbg_atomic("load", a as usize, r as u64);
    r
}
#[no_mangle]
pub unsafe extern "C" fn __tsan_atomic8_store(a: *mut u8, v: u8, mo: i32) {
    atomic_point(a as usize);
    (*(a as *const AtomicU8)).store(v, ord_store(mo))
}
#[no_mangle]
pub unsafe extern "C" fn __tsan_atomic8_exchange(a: *mut u8, v: u8, mo: i32) -> u8 {
    atomic_point(a as usize);
    let r = (*(a as *const AtomicU8)).swap(v, ord_rmw(mo));
    dbg_atomic("exchange", a as usize, r as u64);
    r
}
#[no_mangle]
pub unsafe extern "C" fn __tsan_atomic8_compare_exchange_val(a: *mut u8, c: u8, v: u8, mo: i32, fmo: i32) -> u8 {
    atomic_point(a as usize);
    let r = match (*(a as *const AtomicU8)).compare_exchange(c, v, ord_rmw(mo), ord_load(fmo)) {
        Ok(o) | Err(o) => o,
    };
    dbg_atomic("cas", a as usize, r as u64);
    r
}
#[no_mangle]
pub unsafe extern "C" fn __tsan_atomic8_compare_exchange_strong(a: *mut u8, c: *mut u8, v: u8, mo: i32, fmo: i32) -> i32 {
    atomic_point(a as usize);
    match (*(a as *const AtomicU8)).compare_exchange(*c, v, ord_rmw(mo), ord_load(fmo)) {
        Ok(_) => 1,
        Err(o) => {
            *c = o;
            0
        }
    }
}
#[no_mangle]
pub unsafe extern "C" fn __tsan_atomic8_compare_exchange_weak(a: *mut u8, c: *mut u8, v: u8, mo: i32, fmo: i32) -> i32 {
    __tsan_atomic8_compare_exchange_strong(a, c, v, mo, fmo)
}
#[no_mangle]
pub unsafe extern "C" fn __tsan_atomic8_fetch_add(a: *mut u8, v: u8, mo: i32) -> u8 {
    atomic_point(a as usize);
    let r = (*(a as *const AtomicU8)).fetch_add(v, ord_rmw(mo));
    dbg_atomic("fetch_add", a as usize, r as u64);
    r
}
#[no_mangle]
pub unsafe extern "C" fn __tsan_atomic8_fetch_sub(a: *mut u8, v: u8, mo: i32) -> u8 {
    atomic_point(a as usize);
    let r = (*(a as *const AtomicU8)).fetch_sub(v, ord_rmw(mo));
    dbg_atomic("fetch_sub", a as usize, r as u64);
    r
}
#[no_mangle]
pub unsafe extern "C" fn __tsan_atomic8_fetch_and(a: *mut u8, v: u8, mo: i32) -> u8 {
    atomic_point(a as usize);
    let r = (*(a as *const AtomicU8)).fetch_and(v, ord_rmw(mo));
    dbg_atomic("fetch_and", a as usize, r as u64);
    r
}
#[no_mangle]
pub unsafe extern "C" fn __tsan_atomic8_fetch_or(a: *mut u8, v: u8, mo: i32) -> u8 {
    atomic_point(a as usize);
    let r = (*(a as *const AtomicU8)).fetch_or(v, ord_rmw(mo));
    dbg_atomic("fetch_or", a as usize, r as u64);
    r
}
#[no_mangle]
pub unsafe extern "C" fn __tsan_atomic8_fetch_xor(a: *mut u8, v: u8, mo: i32) -> u8 {
    atomic_point(a as usize);
    let r = (*(a as *const AtomicU8)).fetch_xor(v, ord_rmw(mo));
    dbg_atomic("fetch_xor", a as usize, r as u64);
    r
}
#[no_mangle]
pub unsafe extern "C" fn __tsan_atomic8_fetch_nand(a: *mut u8, v: u8, mo: i32) -> u8 {
    atomic_point(a as usize);
    let r = (*(a as *const AtomicU8)).fetch_nand(v, ord_rmw(mo));
    dbg_atomic("fetch_nand", a as usize, r as u64);
    r
}

#[no_mangle]
pub unsafe extern "C" fn __tsan_atomic16_load(a: *const u16, mo: i32) -> u16 {
    atomic_point(a as usize);
    let r = (*(a as *const AtomicU16)).load(ord_load(mo));
    dbg_atomic("load", a as usize, r as u64);
    r
}
#[no_mangle]
pub unsafe extern "C" fn __tsan_atomic16_store(a: *mut u16, v: u16, mo: i32) {
    atomic_point(a as usize);
    (*(a as *const AtomicU16)).store(v, ord_store(mo))
}
#[no_mangle]
pub unsafe extern "C" fn __tsan_atomic16_exchange(a: *mut u16, v: u16, mo: i32) -> u16 {
    atomic_point(a as usize);
    let r = (*(a as *const AtomicU16)).swap(v, ord_rmw(mo));
    dbg_atomic("exchange", a as usize, r as u64);
    r
}
#[no_mangle]
pub unsafe extern "C" fn __tsan_atomic16_compare_exchange_val(a: *mut u16, c: u16, v: u16, mo: i32, fmo: i32) -> u16 {
    atomic_point(a as usize);
    let r = match (*(a as *const AtomicU16)).compare_exchange(c, v, ord_rmw(mo), ord_load(fmo)) {
        Ok(o) | Err(o) => o,
    };
    dbg_atomic("cas", a as usize, r as u64);
    r
}
#[no_mangle]
pub unsafe extern "C" fn __tsan_atomic16_compare_exchange_strong(a: *mut u16, c: *mut u16, v: u16, mo: i32, fmo: i32) -> i32 {
    atomic_point(a as usize);
    match (*(a as *const AtomicU16)).compare_exchange(*c, v, ord_rmw(mo), ord_load(fmo)) {
        Ok(_) => 1,
        Err(o) => {
            *c = o;
            0
        }
    }
}
#[no_mangle]
pub unsafe extern "C" fn __tsan_atomic16_compare_exchange_weak(a: *mut u16, c: *mut u16, v: u16, mo: i32, fmo: i32) -> i32 {
    __tsan_atomic16_compare_exchange_strong(a, c, v, mo, fmo)
}
#[no_mangle]
pub unsafe extern "C" fn __tsan_atomic16_fetch_add(a: *mut u16, v: u16, mo: i32) -> u16 {
    atomic_point(a as usize);
    let r = (*(a as *const AtomicU16)).fetch_add(v, ord_rmw(mo));
    dbg_atomic("fetch_add", a as usize, r as u64);
    r
}
#[no_mangle]
pub unsafe extern "C" fn __tsan_atomic16_fetch_sub(a: *mut u16, v: u16, mo: i32) -> u16 {
    atomic_point(a as usize);
    let r = (*(a as *const AtomicU16)).fetch_sub(v, ord_rmw(mo));
    dbg_atomic("fetch_sub", a as usize, r as u64);
    r
}
#[no_mangle]
pub unsafe extern "C" fn __tsan_atomic16_fetch_and(a: *mut u16, v: u16, mo: i32) -> u16 {
    atomic_point(a as usize);
    let r = (*(a as *const AtomicU16)).fetch_and(v, ord_rmw(mo));
    dbg_atomic("fetch_and", a as usize, r as u64);
    r
}
#[no_mangle]
pub unsafe extern "C" fn __tsan_atomic16_fetch_or(a: *mut u16, v: u16, mo: i32) -> u16 {
    atomic_point(a as usize);
    let r = (*(a as *const AtomicU16)).fetch_or(v, ord_rmw(mo));
    dbg_atomic("fetch_or", a as usize, r as u64);
    r
}
#[no_mangle]
pub unsafe extern "C" fn __tsan_atomic16_fetch_xor(a: *mut u16, v: u16, mo: i32) -> u16 {
    atomic_point(a as usize);
    let r = (*(a as *const AtomicU16)).fetch_xor(v, ord_rmw(mo));
    dbg_atomic("fetch_xor", a as usize, r as u64);
    r
}
#[no_mangle]
pub unsafe extern "C" fn __tsan_atomic16_fetch_nand(a: *mut u16, v: u16, mo: i32) -> u16 {
    atomic_point(a as usize);
    let r = (*(a as *const AtomicU16)).fetch_nand(v, ord_rmw(mo));
    dbg_atomic("fetch_nand", a as usize, r as u64);
    r
}

#[no_mangle]
pub unsafe extern "C" fn __tsan_atomic32_load(a: *const u32, mo: i32) -> u32 {
    atomic_point(a as usize);
    let r = (*(a as *const AtomicU32)).load(ord_load(mo));
    dbg_atomic("load", a as usize, r as u64);
    r
}
#[no_mangle]
pub unsafe extern "C" fn __tsan_atomic32_store(a: *mut u32, v: u32, mo: i32) {
    atomic_point(a as usize);
    (*(a as *const AtomicU32)).store(v, ord_store(mo))
}
#[no_mangle]
pub unsafe extern "C" fn __tsan_atomic32_exchange(a: *mut u32, v: u32, mo: i32) -> u32 {
    atomic_point(a as usize);
    let r = (*(a as *const AtomicU32)).swap(v, ord_rmw(mo));
    dbg_atomic("exchange", a as usize, r as u64);
    r
}
#[no_mangle]
pub unsafe extern "C" fn __tsan_atomic32_compare_exchange_val(a: *mut u32, c: u32, v: u32, mo: i32, fmo: i32) -> u32 {
    atomic_point(a as usize);
    let r = match (*(a as *const AtomicU32)).compare_exchange(c, v, ord_rmw(mo), ord_load(fmo)) {
        Ok(o) | Err(o) => o,
    };
    dbg_atomic("cas", a as usize, r as u64);
    r
}
#[no_mangle]
pub unsafe extern "C" fn __tsan_atomic32_compare_exchange_strong(a: *mut u32, c: *mut u32, v: u32, mo: i32, fmo: i32) -> i32 {
    atomic_point(a as usize);
    match (*(a as *const AtomicU32)).compare_exchange(*c, v, ord_rmw(mo), ord_load(fmo)) {
        Ok(_) => 1,
        Err(o) => {
            *c = o;
            0
        }
    }
}
#[no_mangle]
pub unsafe extern "C" fn __tsan_atomic32_compare_exchange_weak(a: *mut u32, c: *mut u32, v: u32, mo: i32, fmo: i32) -> i32 {
    __tsan_atomic32_compare_exchange_strong(a, c, v, mo, fmo)
}
#[no_mangle]
pub unsafe extern "C" fn __tsan_atomic32_fetch_add(a: *mut u32, v: u32, mo: i32) -> u32 {
    atomic_point(a as usize);
    let r = (*(a as *const AtomicU32)).fetch_add(v, ord_rmw(mo));
    dbg_atomic("fetch_add", a as usize, r as u64);
    r
}
#[no_mangle]
pub unsafe extern "C" fn __tsan_atomic32_fetch_sub(a: *mut u32, v: u32, mo: i32) -> u32 {
    atomic_point(a as usize);
    let r = (*(a as *const AtomicU32)).fetch_sub(v, ord_rmw(mo));
    dbg_atomic("fetch_sub", a as usize, r as u64);
    r
}
#[no_mangle]
pub unsafe extern "C" fn __tsan_atomic32_fetch_and(a: *mut u32, v: u32, mo: i32) -> u32 {
    atomic_point(a as usize);
    let r = (*(a as *const AtomicU32)).fetch_and(v, ord_rmw(mo));
    dbg_atomic("fetch_and", a as usize, r as u64);
    r
}
#[no_mangle]
pub unsafe extern "C" fn __tsan_atomic32_fetch_or(a: *mut u32, v: u32, mo: i32) -> u32 {
    atomic_point(a as usize);
    let r = (*(a as *const AtomicU32)).fetch_or(v, ord_rmw(mo));
    dbg_atomic("fetch_or", a as usize, r as u64);
    r
}
#[no_mangle]
pub unsafe extern "C" fn __tsan_atomic32_fetch_xor(a: *mut u32, v: u32, mo: i32) -> u32 {
    atomic_point(a as usize);
    let r = (*(a as *const AtomicU32)).fetch_xor(v, ord_rmw(mo));
    dbg_atomic("fetch_xor", a as usize, r as u64);
    r
}
#[no_mangle]
pub unsafe extern "C" fn __tsan_atomic32_fetch_nand(a: *mut u32, v: u32, mo: i32) -> u32 {
    atomic_point(a as usize);
    let r = (*(a as *const AtomicU32)).fetch_nand(v, ord_rmw(mo));
    dbg_atomic("fetch_nand", a as usize, r as u64);
    r
}

#[no_mangle]
pub unsafe extern "C" fn __tsan_atomic64_load(a: *const u64, mo: i32) -> u64 {
    atomic_point(a as usize);
    let r = (*(a as *const AtomicU64)).load(ord_load(mo));
    dbg_atomic("load", a as usize, r as u64);
    r
}
#[no_mangle]
pub unsafe extern "C" fn __tsan_atomic64_store(a: *mut u64, v: u64, mo: i32) {
    atomic_point(a as usize);
    (*(a as *const AtomicU64)).store(v, ord_store(mo))
}
#[no_mangle]
pub unsafe extern "C" fn __tsan_atomic64_exchange(a: *mut u64, v: u64, mo: i32) -> u64 {
    atomic_point(a as usize);
    let r = (*(a as *const AtomicU64)).swap(v, ord_rmw(mo));
    dbg_atomic("exchange", a as usize, r as u64);
    r
}
#[no_mangle]
pub unsafe extern "C" fn __tsan_atomic64_compare_exchange_val(a: *mut u64, c: u64, v: u64, mo: i32, fmo: i32) -> u64 {
    atomic_point(a as usize);
    let r = match (*(a as *const AtomicU64)).compare_exchange(c, v, ord_rmw(mo), ord_load(fmo)) {
        Ok(o) | Err(o) => o,
    };
    dbg_atomic("cas", a as usize, r as u64);
    r
}
#[no_mangle]
pub unsafe extern "C" fn __tsan_atomic64_compare_exchange_strong(a: *mut u64, c: *mut u64, v: u64, mo: i32, fmo: i32) -> i32 {
    atomic_point(a as usize);
    match (*(a as *const AtomicU64)).compare_exchange(*c, v, ord_rmw(mo), ord_load(fmo)) {
        Ok(_) => 1,
        Err(o) => {
            *c = o;
            0
        }
    }
}
#[no_mangle]
pub unsafe extern "C" fn __tsan_atomic64_compare_exchange_weak(a: *mut u64, c: *mut u64, v: u64, mo: i32, fmo: i32) -> i32 {
    __tsan_atomic64_compare_exchange_strong(a, c, v, mo, fmo)
}
#[no_mangle]
pub unsafe extern "C" fn __tsan_atomic64_fetch_add(a: *mut u64, v: u64, mo: i32) -> u64 {
    atomic_point(a as usize);
    let r = (*(a as *const AtomicU64)).fetch_add(v, ord_rmw(mo));
    dbg_atomic("fetch_add", a as usize, r as u64);
    r
}
#[no_mangle]
pub unsafe extern "C" fn __tsan_atomic64_fetch_sub(a: *mut u64, v: u64, mo: i32) -> u64 {
    atomic_point(a as usize);
    let r = (*(a as *const AtomicU64)).fetch_sub(v, ord_rmw(mo));
    dbg_atomic("fetch_sub", a as usize, r as u64);
    r
}
#[no_mangle]
pub unsafe extern "C" fn __tsan_atomic64_fetch_and(a: *mut u64, v: u64, mo: i32) -> u64 {
    atomic_point(a as usize);
    let r = (*(a as *const AtomicU64)).fetch_and(v, ord_rmw(mo));
    dbg_atomic("fetch_and", a as usize, r as u64);
    r
}
#[no_mangle]
pub unsafe extern "C" fn __tsan_atomic64_fetch_or(a: *mut u64, v: u64, mo: i32) -> u64 {
    atomic_point(a as usize);
    let r = (*(a as *const AtomicU64)).fetch_or(v, ord_rmw(mo));
    dbg_atomic("fetch_or", a as usize, r as u64);
    r
}
#[no_mangle]
pub unsafe extern "C" fn __tsan_atomic64_fetch_xor(a: *mut u64, v: u64, mo: i32) -> u64 {
    atomic_point(a as usize);
    let r = (*(a as *const AtomicU64)).fetch_xor(v, ord_rmw(mo));
    dbg_atomic("fetch_xor", a as usize, r as u64);
    r
}
#[no_mangle]
pub unsafe extern "C" fn __tsan_atomic64_fetch_nand(a: *mut u64, v: u64, mo: i32) -> u64 {
    atomic_point(a as usize);
    let r = (*(a as *const AtomicU64)).fetch_nand(v, ord_rmw(mo));
    dbg_atomic("fetch_nand", a as usize, r as u64);
    r
}
