//! Target of the basic-block guards.
//!
//! The copies of the library under test that run under a scheduler (`mv_sim`,
//! `mv_real`) are compiled with LLVM's SanitizerCoverage pass
//! (`-C passes=sancov-module … -sanitizer-coverage-trace-pc-guard`, added by
//! `bin/rustc_wrapper.sh` for those two crates only), so every basic block of
//! the library - including code a changed tree adds - starts with a call to
//! `__sanitizer_cov_trace_pc_guard`. This crate defines that symbol.
//!
//! * mode `SIM` (engine E1): on a worker thread of a simulation the guard is a
//!   potential preemption point. The scheduler is consulted (i) when a countdown
//!   drawn from the decision stream reaches zero - uniform over the *dynamic*
//!   blocks - and (ii) at *rare sites*: the first eight executions of a static
//!   block in the current operation and every execution whose ordinal is a power
//!   of two are candidates, of which a quarter, selected by a hash of
//!   (salt, site, ordinal), yield. The salt is two decisions of the stream, so an
//!   execution remains a pure function of the decision list. Rare sites are what
//!   finds a narrow window in code that runs once per cell among millions of
//!   blocks of inner loops.
//! * mode `NOISE` (engine E3, native real rayon, uncontrolled): the same
//!   candidates get, one time in 32, a `yield_now`, a short spin or (rarely) a short sleep from a per-thread
//!   PRNG. This widens race windows of real threads; it can only confirm.
//! * mode `OFF`: one relaxed load and return.

use std::cell::Cell;
use std::sync::atomic::{AtomicU32, AtomicU64, AtomicUsize, Ordering::Relaxed};

pub const MODE_OFF: u32 = 0;
pub const MODE_SIM: u32 = 1;
pub const MODE_NOISE: u32 = 2;

/// Kinds passed to the simulator's callback.
pub const KIND_COUNTDOWN: u32 = 0;
pub const KIND_RARE_SITE: u32 = 1;

static MODE: AtomicU32 = AtomicU32::new(MODE_OFF);
static SITES: AtomicU32 = AtomicU32::new(0);
static SALT: AtomicU64 = AtomicU64::new(0);
static SIM_CB: AtomicUsize = AtomicUsize::new(0);
static PASSED: AtomicU64 = AtomicU64::new(0);
static RARE_YIELDS: AtomicU64 = AtomicU64::new(0);
static NOISE_EVENTS: AtomicU64 = AtomicU64::new(0);
static NOISE_SEED: AtomicU64 = AtomicU64::new(0x9E37_79B9_7F4A_7C15);

const TABLE: usize = 1 << 17;
static HITS: [AtomicU32; TABLE] = [const { AtomicU32::new(0) }; TABLE];
/// Largest per-operation execution count of each site in the earlier operations of this run
/// (0 = not executed by any of them), and whether there was such an operation.
static PROFILE: [AtomicU32; TABLE] = [const { AtomicU32::new(0) }; TABLE];
static PROFILED: AtomicU32 = AtomicU32::new(0);

struct Tls {
    /// This thread is a worker of a simulation.
    worker: Cell<bool>,
    /// Depth of "inside the simulator's own code" (its locks are not re-entrant).
    internal: Cell<u32>,
    skip: Cell<u32>,
    passed: Cell<u64>,
    rng: Cell<u64>,
}

thread_local! {
    static T: Tls = const { Tls { worker: Cell::new(false), internal: Cell::new(0), skip: Cell::new(0), passed: Cell::new(0), rng: Cell::new(0) } };
}

#[inline]
fn mix(a: u64, b: u64, c: u64) -> u64 {
    let mut z = a ^ b.wrapping_mul(0x9E37_79B9_7F4A_7C15) ^ c.wrapping_mul(0xC2B2_AE3D_27D4_EB4F);
    z = (z ^ (z >> 30)).wrapping_mul(0xBF58_476D_1CE4_E5B9);
    z = (z ^ (z >> 27)).wrapping_mul(0x94D0_49BB_1331_11EB);
    z ^ (z >> 31)
}

/// Number of static guard sites registered by the instrumented crates linked into this process.
pub fn sites() -> u32 {
    SITES.load(Relaxed)
}

pub fn set_mode(m: u32) {
    MODE.store(m, Relaxed);
}

pub fn mode() -> u32 {
    MODE.load(Relaxed)
}

/// Salt of the rare-site selection for the coming operation (0 = no rare-site yields).
pub fn set_salt(s: u64) {
    SALT.store(s, Relaxed);
}

/// Start of an operation: the per-site execution counts of the operation that just ended go into
/// the profile of this run, then they are forgotten.
pub fn reset_hits() {
    let n = (SITES.load(Relaxed) as usize + 1).min(TABLE);
    let mut any = false;
    for (h, p) in HITS[..n].iter().zip(PROFILE[..n].iter()) {
        let v = h.load(Relaxed);
        if v != 0 {
            any = true;
            if v > p.load(Relaxed) {
                p.store(v, Relaxed);
            }
            h.store(0, Relaxed);
        }
    }
    if any {
        PROFILED.store(1, Relaxed);
    }
}

/// Start of a run (a simulated process): no profile yet.
pub fn reset_profile() {
    let n = (SITES.load(Relaxed) as usize + 1).min(TABLE);
    for (h, p) in HITS[..n].iter().zip(PROFILE[..n].iter()) {
        h.store(0, Relaxed);
        p.store(0, Relaxed);
    }
    PROFILED.store(0, Relaxed);
}

/// The simulator's callback: `fn(kind)`, called on a worker thread that is not inside the simulator.
pub fn set_sim_callback(f: Option<fn(u32)>) {
    SIM_CB.store(f.map_or(0, |f| f as usize), Relaxed);
}

pub fn set_thread_worker(on: bool) {
    let _ = T.try_with(|t| t.worker.set(on));
}

/// Countdown until the scheduler next looks at a guard of this thread.
pub fn set_skip(n: u32) {
    let _ = T.try_with(|t| t.skip.set(n));
}

/// Enter / leave the simulator's own code on this thread (guards and emulated
/// system calls are passed through while the depth is non-zero).
#[inline]
pub fn enter_internal() {
    let _ = T.try_with(|t| t.internal.set(t.internal.get() + 1));
}

#[inline]
pub fn leave_internal() {
    let _ = T.try_with(|t| t.internal.set(t.internal.get().saturating_sub(1)));
}

#[inline]
pub fn is_internal() -> bool {
    T.try_with(|t| t.internal.get() > 0).unwrap_or(true)
}

#[inline]
pub fn is_worker() -> bool {
    T.try_with(|t| t.worker.get()).unwrap_or(false)
}

/// Guards passed by this thread since the last call (the thread's own count).
pub fn take_passed() -> u64 {
    T.try_with(|t| t.passed.replace(0)).unwrap_or(0)
}

/// Process-wide counters: (guards passed and flushed, rare-site yields, noise events).
pub fn counters() -> (u64, u64, u64) {
    (PASSED.load(Relaxed), RARE_YIELDS.load(Relaxed), NOISE_EVENTS.load(Relaxed))
}

pub fn add_passed(n: u64) {
    PASSED.fetch_add(n, Relaxed);
}

pub fn set_noise_seed(s: u64) {
    NOISE_SEED.store(s | 1, Relaxed);
}

/// # Safety
/// Called by the module constructors the compiler emits; `start..stop` is the guard array of one module.
#[no_mangle]
pub unsafe extern "C" fn __sanitizer_cov_trace_pc_guard_init(start: *mut u32, stop: *mut u32) {
    if start.is_null() || start == stop || *start != 0 {
        return;
    }
    let mut p = start;
    while p < stop {
        *p = SITES.fetch_add(1, Relaxed) + 1;
        p = p.add(1);
    }
}

/// # Safety
/// Called by instrumented code with a pointer into a registered guard array.
#[no_mangle]
pub unsafe extern "C" fn __sanitizer_cov_trace_pc_guard(g: *mut u32) {
    let m = MODE.load(Relaxed);
    if m == MODE_OFF {
        return;
    }
    guard_slow(*g, m);
}

#[inline(never)]
fn guard_slow(id: u32, m: u32) {
    let _ = T.try_with(|t| {
        if t.internal.get() > 0 {
            return;
        }
        if m == MODE_SIM {
            if !t.worker.get() {
                return;
            }
            t.passed.set(t.passed.get() + 1);
            let slot = &HITS[id as usize & (TABLE - 1)];
            let v = slot.load(Relaxed);
            slot.store(v.wrapping_add(1), Relaxed);
            // Which executions are candidates, and how many of them yield. Without a profile: the
            // first eight of a site in this operation and every power of two, one in four. With one
            // (an earlier operation of this run executed code): a site that ran at most 16 times in
            // every earlier operation is rare for good - every execution is a candidate, one in two
            // yields; a site that ran more often only keeps its first two executions and the powers
            // of two, one in sixteen; a site no earlier operation reached is treated as unprofiled.
            let prof = if PROFILED.load(Relaxed) != 0 { PROFILE[id as usize & (TABLE - 1)].load(Relaxed) } else { 0 };
            let (cand, mask) = if prof == 0 {
                (v < 8 || v.is_power_of_two(), 3u64)
            } else if prof <= 16 {
                (v < 64, 1u64)
            } else {
                (v < 2 || v.is_power_of_two(), 15u64)
            };
            let rare = cand && {
                let s = SALT.load(Relaxed);
                s != 0 && mix(s, id as u64, v as u64) & mask == 0
            };
            let skip = t.skip.get();
            if rare || skip == 0 {
                let cb = SIM_CB.load(Relaxed);
                if cb != 0 {
                    if rare {
                        RARE_YIELDS.fetch_add(1, Relaxed);
                    }
                    let f: fn(u32) = unsafe { std::mem::transmute::<usize, fn(u32)>(cb) };
                    t.internal.set(t.internal.get() + 1);
                    f(if rare { KIND_RARE_SITE } else { KIND_COUNTDOWN });
                    t.internal.set(t.internal.get().saturating_sub(1));
                } else {
                    t.skip.set(1 << 16);
                }
            } else {
                t.skip.set(skip - 1);
            }
        } else {
            // native noise injection
            let slot = &HITS[id as usize & (TABLE - 1)];
            let v = slot.load(Relaxed);
            slot.store(v.wrapping_add(1), Relaxed);
            let mut x = t.rng.get();
            if x == 0 {
                x = mix(NOISE_SEED.load(Relaxed), &t.rng as *const _ as u64, 1) | 1;
            }
            x ^= x << 13;
            x ^= x >> 7;
            x ^= x << 17;
            t.rng.set(x);
            let rare = v < 8 || v.is_power_of_two();
            let hit = if rare { x & 31 == 0 } else { x & 0x3_ffff == 0 };
            if hit {
                NOISE_EVENTS.fetch_add(1, Relaxed);
                t.internal.set(t.internal.get() + 1);
                match (x >> 20) % 32 {
                    0..=21 => std::thread::yield_now(),
                    22..=30 => {
                        let n = 50 + ((x >> 32) % 2000);
                        for _ in 0..n {
                            std::hint::spin_loop();
                        }
                    }
                    _ => std::thread::sleep(std::time::Duration::from_micros(20 + (x >> 40) % 100)),
                }
                t.internal.set(t.internal.get().saturating_sub(1));
            }
        }
    });
}
