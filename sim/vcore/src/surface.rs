//! The observation surface: every public entry point of the library that runs
//! a parallel loop, executed on a `Case` and hashed bit-for-bit.
//!
//! The code is a macro because it is instantiated once per copy of the library
//! (simulated rayon, no rayon, real rayon): the copies are distinct crates
//! with distinct types.

#[derive(Clone, Copy, Debug, PartialEq, Eq, PartialOrd, Ord, Hash)]
pub enum OpKind {
    /// `Voronoi::build` / `Voronoi::build_partial`
    Build = 0,
    /// `VoronoiIntegrator::build`
    Integrator = 1,
    /// `Voronoi::from(&VoronoiIntegrator)` (without faces)
    IntegratorToVoronoi = 2,
    /// `compute_cell_integrals[_with_data]`
    CellIntegrals = 3,
    /// `compute_face_integrals[_with_data]`
    FaceIntegrals = 4,
    /// `compute_face_integrals_sym[_with_data]`
    FaceIntegralsSym = 5,
    /// `with_faces` and everything above on the result (3D only)
    WithFaces = 6,
}

pub const ALL_OPS: &[OpKind] = &[
    OpKind::Build,
    OpKind::Integrator,
    OpKind::IntegratorToVoronoi,
    OpKind::CellIntegrals,
    OpKind::FaceIntegrals,
    OpKind::FaceIntegralsSym,
    OpKind::WithFaces,
];

impl OpKind {
    pub fn name(&self) -> &'static str {
        match self {
            OpKind::Build => "build",
            OpKind::Integrator => "integrator",
            OpKind::IntegratorToVoronoi => "integrator_to_voronoi",
            OpKind::CellIntegrals => "cell_integrals",
            OpKind::FaceIntegrals => "face_integrals",
            OpKind::FaceIntegralsSym => "face_integrals_sym",
            OpKind::WithFaces => "with_faces",
        }
    }
    pub fn from_name(s: &str) -> Option<OpKind> {
        ALL_OPS.iter().copied().find(|o| o.name() == s)
    }
    /// Number of parallel call sites the op drives.
    pub fn parallel_sections(&self) -> u64 {
        match self {
            OpKind::Build => 1,
            OpKind::Integrator => 1,
            OpKind::IntegratorToVoronoi => 3,
            OpKind::CellIntegrals => 5,
            OpKind::FaceIntegrals => 5,
            OpKind::FaceIntegralsSym => 5,
            OpKind::WithFaces => 8,
        }
    }
}

#[macro_export]
macro_rules! impl_surface {
    ($modname:ident, $krate:ident) => {
        pub mod $modname {
            use $crate::case::Case;
            use $crate::digest::{Digest, Hasher, Outcome};
            use $crate::surface::OpKind;
            use $krate::integrals::{AreaCentroidIntegral, AreaIntegral, VolumeCentroidIntegral, VolumeIntegral};
            use $krate::verif::{TaggedCell, TaggedFace};
            use $krate::{Dimensionality, Voronoi, VoronoiIntegrator};

            fn dimensionality(case: &Case) -> Dimensionality {
                match case.dim {
                    1 => Dimensionality::OneD,
                    2 => Dimensionality::TwoD,
                    _ => Dimensionality::ThreeD,
                }
            }

            fn digest_voronoi(d: &mut Digest, prefix: &str, v: &Voronoi) {
                let mut h = Hasher::new();
                h.v3(v.anchor());
                h.v3(v.width());
                h.usize(v.dimensionality());
                h.bool(v.periodic());
                h.usize(v.cells().len());
                h.usize(v.faces().len());
                d.push(&format!("{}.meta", prefix), &h);
                let mut h = Hasher::new();
                for c in v.cells() {
                    h.v3(c.loc());
                    h.v3(c.centroid());
                    h.f64(c.volume());
                    h.f64(c.safety_radius());
                    h.usize(c.face_connections_offset());
                    h.usize(c.face_count());
                }
                d.push(&format!("{}.cells", prefix), &h);
                let mut h = Hasher::new();
                for f in v.faces() {
                    h.usize(f.left());
                    h.opt_usize(f.right());
                    h.opt_v3(f.shift());
                    h.f64(f.area());
                    h.v3(f.centroid());
                    h.v3(f.normal());
                }
                d.push(&format!("{}.faces", prefix), &h);
                let mut h = Hasher::new();
                for c in v.cell_face_connections() {
                    h.usize(*c);
                }
                d.push(&format!("{}.connections", prefix), &h);
                let mut h = Hasher::new();
                let total = v.cell_face_connections().len();
                for c in v.cells() {
                    // a broken offset/count would make the accessor panic; hash that fact instead
                    if c.face_connections_offset() + c.face_count() <= total {
                        for n in c.neighbour_ids(v) {
                            h.usize(n);
                        }
                        h.u64(u64::MAX);
                    } else {
                        h.u64(0xdead);
                    }
                }
                d.push(&format!("{}.neighbours", prefix), &h);
            }

            /// `VoronoiIntegrator::build_voronoi_cells` observed directly: the per-cell face vectors
            /// (which vector holds what), not only their concatenation.
            macro_rules! digest_cell_face_vectors {
                ($d:expr, $prefix:expr, $integ:expr, $n:expr) => {{
                    let mut faces: Vec<Vec<_>> = (0..$n).map(|_| Vec::new()).collect();
                    let cells = $integ.build_voronoi_cells(&mut faces);
                    let mut h = Hasher::new();
                    h.usize(cells.len());
                    for c in &cells {
                        h.v3(c.loc());
                        h.v3(c.centroid());
                        h.f64(c.volume());
                        h.f64(c.safety_radius());
                    }
                    for (i, fv) in faces.iter().enumerate() {
                        h.usize(i);
                        h.usize(fv.len());
                        for f in fv {
                            h.usize(f.left());
                            h.opt_usize(f.right());
                            h.opt_v3(f.shift());
                            h.f64(f.area());
                            h.v3(f.centroid());
                            h.v3(f.normal());
                        }
                    }
                    $d.push(&format!("{}.cell_face_vectors", $prefix), &h);
                }};
            }

            macro_rules! digest_cells {
                (@faces without, $h:ident, $c:ident) => {};
                (@faces with, $h:ident, $c:ident) => {{
                    $h.usize($c.face_count());
                    for f in 0..$c.face_count() {
                        $h.usize($c.face_vertex_count(f));
                        for v in $c.face_vertices(f) {
                            $h.usize(*v);
                        }
                        $h.opt_usize($c.neighbour(f));
                        $h.opt_v3($c.shift(f));
                        $h.v3($c.clipping_plane(f).n);
                        $h.v3($c.clipping_plane(f).p);
                    }
                }};
                ($d:expr, $prefix:expr, $integ:expr, $n:expr, $faces:ident) => {{
                    let mut h = Hasher::new();
                    #[allow(unused_mut)]
                    let mut hf = Hasher::new();
                    for i in 0..$n {
                        match $integ.get_cell_at(i) {
                            None => h.u64(0xffff_ffff_0000_0000),
                            Some(c) => {
                                h.usize(c.idx);
                                h.v3(c.loc);
                                h.usize(c.clipping_planes.len());
                                for p in &c.clipping_planes {
                                    h.v3(p.plane.n);
                                    h.v3(p.plane.p);
                                    h.opt_usize(p.right_idx);
                                    h.opt_v3(p.shift);
                                }
                                h.usize(c.vertices.len());
                                for v in &c.vertices {
                                    h.v3(v.loc);
                                    h.usize(v.dual[0]);
                                    h.usize(v.dual[1]);
                                    h.usize(v.dual[2]);
                                }
                                digest_cells!(@faces $faces, hf, c);
                            }
                        }
                    }
                    // the filtered iterator must agree with indexed access
                    for c in $integ.cells_iter() {
                        h.usize(c.idx);
                    }
                    $d.push(&format!("{}.cells", $prefix), &h);
                    if hf.count > 0 {
                        $d.push(&format!("{}.cell_faces", $prefix), &hf);
                    }
                }};
            }

            macro_rules! digest_integrals {
                ($d:expr, $prefix:expr, $integ:expr, $n:expr, cell) => {{
                    let unit = vec![(); $n];
                    let mut h = Hasher::new();
                    for x in $integ.compute_cell_integrals::<VolumeIntegral>() {
                        h.f64(x.volume);
                    }
                    $d.push(&format!("{}.cell.volume", $prefix), &h);
                    let mut h = Hasher::new();
                    for x in $integ.compute_cell_integrals::<VolumeCentroidIntegral>() {
                        h.f64(x.volume);
                        h.v3(x.centroid);
                    }
                    $d.push(&format!("{}.cell.volume_centroid", $prefix), &h);
                    let mut h = Hasher::new();
                    for x in $integ.compute_cell_integrals::<TaggedCell>() {
                        h.usize(x.idx);
                        h.usize(x.tets);
                        h.f64(x.volume);
                    }
                    $d.push(&format!("{}.cell.tagged", $prefix), &h);
                    let mut h = Hasher::new();
                    for x in $integ.compute_cell_integrals_with_data::<(), TaggedCell>(&unit) {
                        h.usize(x.idx);
                        h.usize(x.tets);
                        h.f64(x.volume);
                    }
                    $d.push(&format!("{}.cell.tagged_with_data", $prefix), &h);
                    let mut h = Hasher::new();
                    for x in $integ.compute_cell_integrals_with_data::<(), VolumeCentroidIntegral>(&unit) {
                        h.f64(x.volume);
                        h.v3(x.centroid);
                    }
                    $d.push(&format!("{}.cell.volume_centroid_with_data", $prefix), &h);
                }};
                ($d:expr, $prefix:expr, $integ:expr, $n:expr, face, $plain:ident, $with:ident) => {{
                    let unit = vec![(); $n];
                    let mut h = Hasher::new();
                    for x in $integ.$plain::<AreaIntegral>() {
                        h.usize(x.left());
                        h.opt_usize(x.right());
                        h.opt_v3(x.shift());
                        h.f64(x.integral().area);
                    }
                    $d.push(&format!("{}.{}.area", $prefix, stringify!($plain)), &h);
                    let mut h = Hasher::new();
                    for x in $integ.$plain::<AreaCentroidIntegral>() {
                        h.usize(x.left());
                        h.opt_usize(x.right());
                        h.opt_v3(x.shift());
                        h.f64(x.integral().area);
                        h.v3(x.integral().centroid);
                    }
                    $d.push(&format!("{}.{}.area_centroid", $prefix, stringify!($plain)), &h);
                    let mut h = Hasher::new();
                    for x in $integ.$plain::<TaggedFace>() {
                        h.usize(x.left());
                        h.opt_usize(x.right());
                        h.opt_v3(x.shift());
                        h.usize(x.integral().cell_idx);
                        h.usize(x.integral().plane_idx);
                        h.usize(x.integral().tris);
                        h.f64(x.integral().area);
                    }
                    $d.push(&format!("{}.{}.tagged", $prefix, stringify!($plain)), &h);
                    let mut h = Hasher::new();
                    for x in $integ.$with::<(), TaggedFace>(&unit) {
                        h.usize(x.left());
                        h.opt_usize(x.right());
                        h.opt_v3(x.shift());
                        h.usize(x.integral().cell_idx);
                        h.usize(x.integral().plane_idx);
                        h.usize(x.integral().tris);
                        h.f64(x.integral().area);
                    }
                    $d.push(&format!("{}.{}.tagged", $prefix, stringify!($with)), &h);
                    let mut h = Hasher::new();
                    for x in $integ.$with::<(), AreaCentroidIntegral>(&unit) {
                        h.usize(x.left());
                        h.opt_usize(x.right());
                        h.opt_v3(x.shift());
                        h.f64(x.integral().area);
                        h.v3(x.integral().centroid);
                    }
                    $d.push(&format!("{}.{}.area_centroid", $prefix, stringify!($with)), &h);
                }};
            }

            fn run_inner(case: &Case, op: OpKind) -> Digest {
                let gens = case.gens_v();
                let n = gens.len();
                let anchor = case.anchor_v();
                let width = case.width_v();
                let dim = dimensionality(case);
                let mask = case.mask.as_deref();
                let mut d = Digest::new();
                match op {
                    OpKind::Build => {
                        let v = match mask {
                            None => Voronoi::build(&gens, anchor, width, dim, case.periodic),
                            Some(m) => Voronoi::build_partial(&gens, m, anchor, width, dim, case.periodic),
                        };
                        digest_voronoi(&mut d, "voronoi", &v);
                    }
                    OpKind::Integrator => {
                        let vi = VoronoiIntegrator::build(&gens, mask, anchor, width, dim, case.periodic);
                        digest_cells!(d, "integrator", vi, n, without);
                    }
                    OpKind::IntegratorToVoronoi => {
                        let vi = VoronoiIntegrator::build(&gens, mask, anchor, width, dim, case.periodic);
                        let v = Voronoi::from(&vi);
                        digest_voronoi(&mut d, "from_integrator", &v);
                        digest_cell_face_vectors!(d, "integrator", vi, n);
                    }
                    OpKind::CellIntegrals => {
                        let vi = VoronoiIntegrator::build(&gens, mask, anchor, width, dim, case.periodic);
                        digest_integrals!(d, "integrator", vi, n, cell);
                    }
                    OpKind::FaceIntegrals => {
                        let vi = VoronoiIntegrator::build(&gens, mask, anchor, width, dim, case.periodic);
                        digest_integrals!(d, "integrator", vi, n, face, compute_face_integrals, compute_face_integrals_with_data);
                    }
                    OpKind::FaceIntegralsSym => {
                        let vi = VoronoiIntegrator::build(&gens, mask, anchor, width, dim, case.periodic);
                        digest_integrals!(d, "integrator", vi, n, face, compute_face_integrals_sym, compute_face_integrals_sym_with_data);
                    }
                    OpKind::WithFaces => {
                        let vi = VoronoiIntegrator::build(&gens, mask, anchor, width, dim, case.periodic);
                        if case.dim != 3 {
                            // `with_faces` is rejected in 1D/2D by contract; observe the plain conversion instead
                            let v = Voronoi::from(&vi);
                            digest_voronoi(&mut d, "from_integrator", &v);
                        } else {
                            let vf = vi.with_faces();
                            digest_cells!(d, "with_faces", vf, n, with);
                            let v = Voronoi::from(&vf);
                            digest_voronoi(&mut d, "from_with_faces", &v);
                            digest_cell_face_vectors!(d, "with_faces", vf, n);
                            digest_integrals!(d, "with_faces", vf, n, cell);
                            digest_integrals!(d, "with_faces", vf, n, face, compute_face_integrals, compute_face_integrals_with_data);
                            digest_integrals!(d, "with_faces", vf, n, face, compute_face_integrals_sym, compute_face_integrals_sym_with_data);
                        }
                    }
                }
                d
            }

            /// Run one operation; a panic is part of the observable outcome.
            pub fn run_op(case: &Case, op: OpKind) -> Outcome {
                run_op_f(case, op, None)
            }

            /// The same with a fault: the user-supplied (tagged) integral panics at its `call`-th
            /// invocation for cell `cell`, in the middle of that cell's decomposition; the caller
            /// (this function) catches it. Ops that evaluate no user integral are unaffected.
            pub fn run_op_f(case: &Case, op: OpKind, fault: Option<(usize, usize)>) -> Outcome {
                struct Reset;
                impl Drop for Reset {
                    fn drop(&mut self) {
                        $krate::verif::set_injected_panic(None);
                    }
                }
                let _reset = Reset;
                $krate::verif::set_injected_panic(fault);
                match std::panic::catch_unwind(std::panic::AssertUnwindSafe(|| run_inner(case, op))) {
                    Ok(d) => Outcome::Ok(d),
                    Err(p) => {
                        let msg = if let Some(s) = p.downcast_ref::<&str>() {
                            s.to_string()
                        } else if let Some(s) = p.downcast_ref::<String>() {
                            s.clone()
                        } else {
                            "<non-string panic>".to_string()
                        };
                        Outcome::Panic(msg)
                    }
                }
            }
        }
    };
}
