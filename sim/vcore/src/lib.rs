pub mod case;
pub mod digest;
pub mod json;
pub mod rng;
pub mod surface;

pub use case::{gen_case, Case, GenLimits};
pub use digest::{Digest, Hasher, Outcome};
pub use json::J;
pub use rng::{mix, Rng};
pub use surface::{OpKind, ALL_OPS};
