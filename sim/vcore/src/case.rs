//! Workload inputs: a tessellation problem (`Case`) drawn from a seeded
//! swarm of generator families, box shapes, dimensionalities and masks.
//! Inputs are valid by construction: finite, inside the box, pairwise distinct
//! in the active coordinates (and modulo the period when periodic).

use crate::json::J;
use crate::rng::Rng;
use glam::DVec3;

#[derive(Clone, Debug, PartialEq)]
pub struct Case {
    pub dim: usize,
    pub periodic: bool,
    pub anchor: [f64; 3],
    pub width: [f64; 3],
    pub gens: Vec<[f64; 3]>,
    pub mask: Option<Vec<bool>>,
    pub family: String,
}

impl Case {
    pub fn anchor_v(&self) -> DVec3 {
        DVec3::from_array(self.anchor)
    }
    pub fn width_v(&self) -> DVec3 {
        DVec3::from_array(self.width)
    }
    pub fn gens_v(&self) -> Vec<DVec3> {
        self.gens.iter().map(|g| DVec3::from_array(*g)).collect()
    }
    pub fn n(&self) -> usize {
        self.gens.len()
    }

    pub fn to_json(&self) -> J {
        let f3 = |a: &[f64; 3]| J::arr(a.iter().map(|x| J::s(&format!("{:016x}", x.to_bits()))));
        let mut o = J::obj()
            .set("dim", J::u(self.dim as u64))
            .set("periodic", J::Bool(self.periodic))
            .set("anchor_bits", f3(&self.anchor))
            .set("width_bits", f3(&self.width))
            .set("anchor", J::arr(self.anchor.iter().map(|x| J::Num(*x))))
            .set("width", J::arr(self.width.iter().map(|x| J::Num(*x))))
            .set("family", J::s(&self.family))
            .set("generators_bits", J::arr(self.gens.iter().map(f3)))
            .set(
                "generators",
                J::arr(self.gens.iter().map(|g| J::arr(g.iter().map(|x| J::Num(*x))))),
            );
        o.put(
            "mask",
            match &self.mask {
                None => J::Null,
                Some(m) => J::arr(m.iter().map(|b| J::Bool(*b))),
            },
        );
        o
    }

    pub fn from_json(j: &J) -> Result<Case, String> {
        let bits3 = |v: &J| -> Result<[f64; 3], String> {
            let a = v.as_arr().ok_or("expected array of 3")?;
            if a.len() != 3 {
                return Err("expected 3 components".into());
            }
            let mut out = [0.0; 3];
            for i in 0..3 {
                let s = a[i].as_str().ok_or("expected hex string")?;
                out[i] = f64::from_bits(u64::from_str_radix(s, 16).map_err(|e| e.to_string())?);
            }
            Ok(out)
        };
        let gens = j
            .get("generators_bits")
            .and_then(|g| g.as_arr())
            .ok_or("generators_bits missing")?
            .iter()
            .map(bits3)
            .collect::<Result<Vec<_>, _>>()?;
        let mask = match j.get("mask") {
            None | Some(J::Null) => None,
            Some(m) => Some(
                m.as_arr()
                    .ok_or("mask must be an array")?
                    .iter()
                    .map(|b| b.as_bool().unwrap_or(false))
                    .collect(),
            ),
        };
        Ok(Case {
            dim: j.get("dim").and_then(|d| d.as_u64()).ok_or("dim missing")? as usize,
            periodic: j.get("periodic").and_then(|d| d.as_bool()).ok_or("periodic missing")?,
            anchor: bits3(j.get("anchor_bits").ok_or("anchor_bits missing")?)?,
            width: bits3(j.get("width_bits").ok_or("width_bits missing")?)?,
            gens,
            mask,
            family: j.get("family").and_then(|f| f.as_str()).unwrap_or("?").to_string(),
        })
    }

    /// Remove generators that coincide with an earlier one in the active
    /// coordinates (modulo the period), keeping the input valid.
    pub fn dedup(&mut self) {
        let mut seen: Vec<[u64; 3]> = vec![];
        let mut keep = vec![];
        for g in &self.gens {
            let mut key = [0u64; 3];
            for a in 0..self.dim {
                let mut x = g[a];
                if self.periodic && x >= self.anchor[a] + self.width[a] {
                    x = self.anchor[a];
                }
                // +0.0 and -0.0 are the same position
                key[a] = (x + 0.0).to_bits();
            }
            if seen.contains(&key) {
                keep.push(false);
            } else {
                seen.push(key);
                keep.push(true);
            }
        }
        let mut i = 0;
        self.gens.retain(|_| {
            i += 1;
            keep[i - 1]
        });
        if let Some(m) = &mut self.mask {
            let mut i = 0;
            m.retain(|_| {
                i += 1;
                keep[i - 1]
            });
        }
    }
}

pub const FAMILIES: &[&str] = &[
    "uniform",
    "clustered",
    "lattice",
    "perturbed_lattice",
    "boundary",
    "cospherical",
    "two_scale",
    "void",
    "centered_lattice",
    "hubs",
];

pub const MASKS: &[&str] = &["none", "all_true", "all_false", "single", "random"];

#[derive(Clone, Debug)]
pub struct GenLimits {
    pub max_n: usize,
    /// Lower bound on the number of generators asked for (0 = none).
    pub min_n: usize,
    /// Cap on the number of generators of 3D cases (their cells are much more expensive).
    pub max_n_3d: usize,
    /// Probability weights for dimensionality 1, 2, 3.
    pub dim_weights: [u32; 3],
}

impl Default for GenLimits {
    fn default() -> Self {
        GenLimits {
            max_n: 200,
            min_n: 0,
            max_n_3d: usize::MAX,
            dim_weights: [1, 3, 6],
        }
    }
}

fn pick_n(rng: &mut Rng, max_n: usize) -> usize {
    // many small, some large
    let c = rng.below(100);
    let hi = if c < 35 {
        8
    } else if c < 70 {
        30
    } else if c < 92 {
        80
    } else {
        max_n
    };
    1 + rng.below(hi.min(max_n).max(1) as u64) as usize
}

pub fn gen_case(rng: &mut Rng, lim: &GenLimits) -> Case {
    let tot: u32 = lim.dim_weights.iter().sum();
    let mut d = rng.below(tot as u64) as u32;
    let mut dim = 3;
    for (i, w) in lim.dim_weights.iter().enumerate() {
        if d < *w {
            dim = i + 1;
            break;
        }
        d -= *w;
    }
    let periodic = rng.chance(0.4);

    // box
    let (anchor, width) = match rng.below(6) {
        0 | 1 => ([0.0; 3], [1.0; 3]),
        2 => ([1e3, -2e3, 5e2], [2.0, 2.0, 2.0]),
        3 => ([0.0; 3], [1.0, 4.0, 0.25]),
        4 => ([-1.0, 2.0, 3.0], [3.0, 0.5, 7.0]),
        _ => {
            let s = 10f64.powf(rng.sym() * 4.0);
            (
                [rng.sym() * 10.0, rng.sym() * 10.0, rng.sym() * 10.0],
                [s * (0.5 + rng.f64()), s * (0.5 + rng.f64()), s * (0.5 + rng.f64())],
            )
        }
    };

    let mut n = pick_n(rng, lim.max_n);
    if lim.min_n > 0 && n < lim.min_n {
        n = lim.min_n + rng.below((lim.max_n.max(lim.min_n) - lim.min_n + 1) as u64) as usize;
    }
    if dim == 3 && n > lim.max_n_3d {
        n = lim.max_n_3d / 2 + rng.below((lim.max_n_3d / 2).max(1) as u64) as usize;
    }
    let family = *rng.pick(FAMILIES);
    let mut unit: Vec<[f64; 3]> = vec![]; // in [0,1)^3
    match family {
        "uniform" => {
            for _ in 0..n {
                unit.push([rng.f64(), rng.f64(), rng.f64()]);
            }
        }
        "clustered" => {
            let nc = 1 + rng.below(4) as usize;
            let centres: Vec<[f64; 3]> =
                (0..nc).map(|_| [0.1 + 0.8 * rng.f64(), 0.1 + 0.8 * rng.f64(), 0.1 + 0.8 * rng.f64()]).collect();
            let spread = 10f64.powf(-1.0 - 8.0 * rng.f64());
            for _ in 0..n {
                let c = centres[rng.below(nc as u64) as usize];
                unit.push([c[0] + spread * rng.sym(), c[1] + spread * rng.sym(), c[2] + spread * rng.sym()]);
            }
        }
        "lattice" | "perturbed_lattice" => {
            let m = match dim {
                1 => n.max(1),
                2 => ((n as f64).sqrt().ceil() as usize).max(1),
                _ => ((n as f64).cbrt().ceil() as usize).max(1),
            };
            let pert = if family == "lattice" {
                0.0
            } else {
                10f64.powf(-1.0 - 8.0 * rng.f64())
            };
            let (my, mz) = match dim {
                1 => (1, 1),
                2 => (m, 1),
                _ => (m, m),
            };
            'outer: for i in 0..m {
                for j in 0..my {
                    for k in 0..mz {
                        if unit.len() >= n.max(1) && family == "perturbed_lattice" {
                            break 'outer;
                        }
                        let p = [
                            (i as f64 + 0.5) / m as f64 + pert * rng.sym(),
                            (j as f64 + 0.5) / my as f64 + pert * rng.sym(),
                            (k as f64 + 0.5) / mz as f64 + pert * rng.sym(),
                        ];
                        unit.push(p);
                    }
                }
            }
            if unit.len() > lim.max_n {
                unit.truncate(lim.max_n);
            }
        }
        "boundary" => {
            for _ in 0..n {
                let mut p = [rng.f64(), rng.f64(), rng.f64()];
                for a in 0..3 {
                    match rng.below(5) {
                        0 => p[a] = 0.0,
                        1 => p[a] = if periodic { 0.0 } else { 1.0 },
                        _ => {}
                    }
                }
                unit.push(p);
            }
        }
        "cospherical" => {
            let r = 0.1 + 0.3 * rng.f64();
            let eps = if rng.chance(0.5) { 0.0 } else { 1e-12 };
            for _ in 0..n {
                // random direction
                let (mut x, mut y, mut z);
                loop {
                    x = rng.sym() * 2.0;
                    y = rng.sym() * 2.0;
                    z = rng.sym() * 2.0;
                    let l = (x * x + y * y + z * z).sqrt();
                    if l > 1e-3 && l <= 1.0 {
                        x /= l;
                        y /= l;
                        z /= l;
                        break;
                    }
                }
                if dim < 3 {
                    let l = (x * x + y * y).sqrt().max(1e-9);
                    x /= l;
                    y /= l;
                    z = 0.0;
                }
                let rr = r * (1.0 + eps * rng.sym());
                unit.push([0.5 + rr * x, 0.5 + rr * y, 0.5 + rr * z]);
            }
            if rng.chance(0.5) {
                unit.push([0.5, 0.5, 0.5]);
            }
        }
        "centered_lattice" => {
            // FCC / BCC (3D), centred square (2D): exactly co-spherical neighbour shells on
            // which the exact predicate really decides (on a simple cubic lattice every exact
            // test returns zero, which is also what the float path falls back to)
            let per_cell = match dim {
                3 => {
                    if rng.chance(0.5) {
                        vec![[0.0, 0.0, 0.0], [0.5, 0.5, 0.0], [0.5, 0.0, 0.5], [0.0, 0.5, 0.5]]
                    } else {
                        vec![[0.0, 0.0, 0.0], [0.5, 0.5, 0.5]]
                    }
                }
                2 => vec![[0.0, 0.0, 0.0], [0.5, 0.5, 0.0]],
                _ => vec![[0.0, 0.0, 0.0], [0.25, 0.0, 0.0]],
            };
            let cells = (n / per_cell.len()).max(1);
            let m = match dim {
                1 => cells,
                2 => ((cells as f64).sqrt().ceil() as usize).max(1),
                _ => ((cells as f64).cbrt().ceil() as usize).max(1),
            };
            // power-of-two cell counts give exactly representable coordinates
            let m = if rng.chance(0.6) { m.next_power_of_two() } else { m };
            let (my, mz) = match dim {
                1 => (1, 1),
                2 => (m, 1),
                _ => (m, m),
            };
            let cap = lim.max_n.min(2 * n + 8).max(2);
            'fill: for i in 0..m {
                for j in 0..my {
                    for k in 0..mz {
                        for b in &per_cell {
                            if unit.len() >= cap {
                                break 'fill;
                            }
                            unit.push([
                                (i as f64 + 0.25 + b[0]) / m as f64,
                                (j as f64 + 0.25 + b[1]) / my as f64,
                                (k as f64 + 0.25 + b[2]) / mz as f64,
                            ]);
                        }
                    }
                }
            }
        }
        "void" => {
            // one generator in an empty region surrounded by a dense shell: a single
            // cell with (very) many faces and vertices next to many small ones
            let big = (lim.max_n.max(2) - 1).min(60 + rng.below(140) as usize);
            let m = if rng.chance(0.6) { big } else { n };
            let r = 0.25 + 0.15 * rng.f64();
            let thick = 10f64.powf(-1.0 - 5.0 * rng.f64());
            for _ in 0..m {
                let (mut x, mut y, mut z);
                loop {
                    x = rng.sym() * 2.0;
                    y = rng.sym() * 2.0;
                    z = rng.sym() * 2.0;
                    let l = (x * x + y * y + z * z).sqrt();
                    if l > 1e-3 && l <= 1.0 {
                        x /= l;
                        y /= l;
                        z /= l;
                        break;
                    }
                }
                let rr = r * (1.0 + thick * rng.sym());
                unit.push([0.5 + rr * x, 0.5 + rr * y, 0.5 + rr * z]);
            }
            let at = rng.below(unit.len() as u64 + 1) as usize;
            unit.insert(at, [0.5 + 1e-3 * rng.sym(), 0.5 + 1e-3 * rng.sym(), 0.5 + 1e-3 * rng.sym()]);
        }
        "hubs" => {
            // several generators each alone inside a dense shell of its own: SEVERAL cells with very
            // many faces and vertices (state carried from one expensive cell to the next, thresholds
            // on the size of a cell), placed next to each other or far apart in index order
            let budget = if lim.max_n > 200 { n.max(8) } else { (24 + rng.below(177) as usize).min(lim.max_n.max(8)) };
            let h = (2 + rng.below(5) as usize).min(budget / 4).max(2);
            let per = ((budget / h).saturating_sub(1)).clamp(3, 40 + rng.below(100) as usize);
            // centres on a 2x2x2 arrangement so that the shells do not touch
            let mut slots: Vec<usize> = (0..8).collect();
            for i in (1..slots.len()).rev() {
                slots.swap(i, rng.below(i as u64 + 1) as usize);
            }
            let thick = 10f64.powf(-1.0 - 5.0 * rng.f64());
            let mut hubs: Vec<[f64; 3]> = vec![];
            for j in 0..h {
                let sl = slots[j % 8];
                let c = [0.25 + 0.5 * (sl & 1) as f64, 0.25 + 0.5 * ((sl >> 1) & 1) as f64, if dim == 3 { 0.25 + 0.5 * ((sl >> 2) & 1) as f64 } else { 0.5 }];
                let r = 0.08 + 0.1 * rng.f64();
                for _ in 0..per {
                    let (mut x, mut y, mut z);
                    loop {
                        x = rng.sym() * 2.0;
                        y = rng.sym() * 2.0;
                        z = if dim == 3 { rng.sym() * 2.0 } else { 0.0 };
                        let l = (x * x + y * y + z * z).sqrt();
                        if l > 1e-3 && l <= 1.0 {
                            x /= l;
                            y /= l;
                            z /= l;
                            break;
                        }
                    }
                    let rr = r * (1.0 + thick * rng.sym());
                    unit.push([c[0] + rr * x, c[1] + rr * y, c[2] + rr * z]);
                }
                hubs.push([c[0] + 1e-3 * rng.sym(), c[1] + 1e-3 * rng.sym(), c[2] + if dim == 3 { 1e-3 * rng.sym() } else { 0.0 }]);
            }
            // where the hubs sit in index order: all first, all last, one block in the middle, or scattered
            match rng.below(4) {
                0 => {
                    for (k, hb) in hubs.into_iter().enumerate() {
                        unit.insert(k, hb);
                    }
                }
                1 => unit.extend(hubs),
                2 => {
                    let at = rng.below(unit.len() as u64 + 1) as usize;
                    for (k, hb) in hubs.into_iter().enumerate() {
                        unit.insert(at + k, hb);
                    }
                }
                _ => {
                    for hb in hubs {
                        let at = rng.below(unit.len() as u64 + 1) as usize;
                        unit.insert(at, hb);
                    }
                }
            }
        }
        _ => {
            // two_scale: a coarse uniform background plus one tight clump:
            // very unequal per-cell work
            let nb = (n / 2).max(1);
            for _ in 0..nb {
                unit.push([rng.f64(), rng.f64(), rng.f64()]);
            }
            let c = [0.2 + 0.6 * rng.f64(), 0.2 + 0.6 * rng.f64(), 0.2 + 0.6 * rng.f64()];
            let s = 10f64.powf(-3.0 - 4.0 * rng.f64());
            for _ in nb..n {
                unit.push([c[0] + s * rng.sym(), c[1] + s * rng.sym(), c[2] + s * rng.sym()]);
            }
        }
    }

    // map to the box, clamp inside, garbage in unused coordinates
    let garbage = rng.chance(0.5);
    let mut gens: Vec<[f64; 3]> = vec![];
    for u in unit {
        let mut p = [0.0; 3];
        for a in 0..3 {
            let t = u[a].clamp(0.0, 1.0);
            let mut x = anchor[a] + t * width[a];
            let hi = anchor[a] + width[a];
            if x > hi {
                x = hi;
            }
            if x < anchor[a] {
                x = anchor[a];
            }
            if periodic && x >= hi {
                x = anchor[a];
            }
            p[a] = x;
        }
        for a in dim..3 {
            if garbage {
                p[a] = match rng.below(4) {
                    0 => 1e30 * rng.sym(),
                    1 => -7.25,
                    2 => rng.sym(),
                    _ => 0.0,
                };
            }
        }
        gens.push(p);
    }
    if rng.chance(0.5) {
        rng.shuffle(&mut gens);
    }

    let n = gens.len();
    let mask_kind = *rng.pick(MASKS);
    let mask = match mask_kind {
        "none" => None,
        "all_true" => Some(vec![true; n]),
        "all_false" => Some(vec![false; n]),
        "single" => {
            let mut m = vec![false; n];
            if n > 0 {
                m[rng.below(n as u64) as usize] = true;
            }
            Some(m)
        }
        _ => {
            let p = rng.f64();
            Some((0..n).map(|_| rng.chance(p)).collect())
        }
    };

    let mut anchor = anchor;
    let mut width = width;
    if garbage {
        for a in dim..3 {
            anchor[a] = 123.5 * rng.sym();
            width[a] = 0.001 + 50.0 * rng.f64();
        }
    }

    let mut c = Case {
        dim,
        periodic,
        anchor,
        width,
        gens,
        mask,
        family: format!("{}/{}", family, mask_kind),
    };
    c.dedup();
    if c.gens.is_empty() {
        c.gens.push([anchor[0] + 0.5 * width[0], anchor[1] + 0.5 * width[1], anchor[2] + 0.5 * width[2]]);
        if let Some(m) = &mut c.mask {
            m.push(true);
        }
    }
    c
}

// ---------------------------------------------------------------------------
// Variants: related inputs for multi-call histories
// ---------------------------------------------------------------------------

pub const VARIANT_KINDS: &[&str] = &["mask", "periodic_flip", "jitter", "nudge_others", "truncate", "extend", "box", "permute", "dim"];

fn clamp_into_box(c: &Case, p: &mut [f64; 3]) {
    for a in 0..3 {
        let lo = c.anchor[a];
        let hi = c.anchor[a] + c.width[a];
        if a < c.dim {
            if !(p[a] >= lo) {
                p[a] = lo;
            }
            if p[a] > hi {
                p[a] = hi;
            }
            if c.periodic && p[a] >= hi {
                p[a] = lo;
            }
        }
    }
}

fn random_mask(rng: &mut Rng, n: usize) -> (Option<Vec<bool>>, &'static str) {
    let kind = *rng.pick(MASKS);
    let m = match kind {
        "none" => None,
        "all_true" => Some(vec![true; n]),
        "all_false" => Some(vec![false; n]),
        "single" => {
            let mut m = vec![false; n];
            if n > 0 {
                m[rng.below(n as u64) as usize] = true;
            }
            Some(m)
        }
        _ => {
            let p = rng.f64();
            Some((0..n).map(|_| rng.chance(p)).collect())
        }
    };
    (m, kind)
}

/// A valid input related to `base`: what a long-lived process typically calls
/// the library with next (another mask, slightly moved generators, a few more
/// or fewer generators, another box, the periodic flag flipped). Many generators
/// keep their index and their bit-identical position, so state that wrongly
/// survives between calls (caches keyed by index or position, scratch buffers)
/// has something to be stale about.
pub const INVALID_KINDS: &[&str] = &["dup", "outside", "short_mask"];

/// A caller's mistake: an input derived from `base` that the library is not required to handle -
/// two generators at the same position (same number of generators as `base`), one generator
/// outside the box, a mask that is too short. The call is expected to panic (or to return garbage)
/// identically in the parallel and in the sequential build; what matters is what a caller that
/// catches the failure gets from its NEXT, valid call.
pub fn derive_invalid(rng: &mut Rng, base: &Case) -> Case {
    let mut c = base.clone();
    let n = c.gens.len();
    let mut kind = *rng.pick(INVALID_KINDS);
    if n < 2 {
        kind = "outside";
    }
    match kind {
        "dup" => {
            let i = rng.below(n as u64) as usize;
            let mut j = rng.below(n as u64) as usize;
            if j == i {
                j = (i + 1) % n;
            }
            c.gens[j] = c.gens[i];
        }
        "short_mask" => {
            let k = 1 + rng.below((n - 1).min(3) as u64) as usize;
            let mut m = match &c.mask {
                Some(m) => m.clone(),
                None => vec![true; n],
            };
            m.truncate(n - k);
            c.mask = Some(m);
        }
        _ => {
            let i = rng.below(n.max(1) as u64) as usize;
            let a = rng.below(c.dim as u64) as usize;
            let far = if c.periodic { 2.5 + 2.0 * rng.f64() } else { 0.25 + 2.0 * rng.f64() };
            let sign = if rng.chance(0.5) { 1.0 } else { -1.0 };
            c.gens[i][a] = if sign > 0.0 { c.anchor[a] + c.width[a] * (1.0 + far) } else { c.anchor[a] - c.width[a] * far };
        }
    }
    c.family = format!("{}+invalid:{}", base.family, kind);
    c
}

pub fn derive_variant(rng: &mut Rng, base: &Case) -> Case {
    let mut c = base.clone();
    let kind = *rng.pick(VARIANT_KINDS);
    let n = c.gens.len();
    match kind {
        "mask" => {
            let (m, _) = random_mask(rng, n);
            c.mask = m;
        }
        "periodic_flip" => {
            c.periodic = !c.periodic;
            let cc = c.clone();
            for g in c.gens.iter_mut() {
                clamp_into_box(&cc, g);
            }
        }
        "jitter" | "nudge_others" => {
            // relative size of the displacement: from one ulp of the box to 1%
            let rel = 10f64.powf(-16.0 + 14.0 * rng.f64());
            let keep = if kind == "nudge_others" && n > 0 { rng.below(n as u64) as usize } else { usize::MAX };
            let p = if kind == "nudge_others" { 1.0 } else { *rng.pick(&[0.02, 0.1, 0.5, 1.0]) };
            let cc = c.clone();
            for (i, g) in c.gens.iter_mut().enumerate() {
                if i == keep || !rng.chance(p) {
                    continue;
                }
                for a in 0..cc.dim {
                    if rng.chance(0.7) {
                        g[a] += rel * cc.width[a] * rng.sym() * 2.0;
                    }
                }
                clamp_into_box(&cc, g);
            }
            if kind == "nudge_others" {
                // typical "only this cell is of interest" follow-up call
                if rng.chance(0.5) && keep < n {
                    let mut m = vec![false; n];
                    m[keep] = true;
                    c.mask = Some(m);
                }
            }
        }
        "truncate" => {
            if n > 1 {
                let k = 1 + rng.below((n - 1).min(8) as u64) as usize;
                c.gens.truncate(n - k);
                if let Some(m) = &mut c.mask {
                    m.truncate(n - k);
                }
            }
        }
        "extend" => {
            let k = 1 + rng.below(8) as usize;
            for _ in 0..k {
                let mut p = [0.0; 3];
                for a in 0..3 {
                    p[a] = c.anchor[a] + rng.f64() * c.width[a];
                }
                for a in c.dim..3 {
                    p[a] = base.gens.first().map_or(0.0, |g| g[a]);
                }
                let cc = c.clone();
                clamp_into_box(&cc, &mut p);
                c.gens.push(p);
                if let Some(m) = &mut c.mask {
                    m.push(rng.chance(0.5));
                }
            }
        }
        "dim" => {
            // the same generator array tessellated in another dimensionality
            let mut d = 1 + rng.below(3) as usize;
            if d == c.dim {
                d = 1 + (d % 3);
            }
            c.dim = d;
            let cc = c.clone();
            for g in c.gens.iter_mut() {
                for a in 0..3 {
                    if !g[a].is_finite() {
                        g[a] = cc.anchor[a];
                    }
                }
                clamp_into_box(&cc, g);
            }
        }
        "box" => {
            // a larger box around the same generators
            for a in 0..c.dim {
                match rng.below(3) {
                    0 => c.width[a] *= 2.0,
                    1 => {
                        c.anchor[a] -= 0.5 * c.width[a];
                        c.width[a] *= 1.5;
                    }
                    _ => {}
                }
            }
        }
        _ => {
            // permute: same positions, other indices
            let mut idx: Vec<usize> = (0..n).collect();
            rng.shuffle(&mut idx);
            c.gens = idx.iter().map(|&i| base.gens[i]).collect();
            if let Some(m) = &base.mask {
                c.mask = Some(idx.iter().map(|&i| m[i]).collect());
            }
        }
    }
    c.family = format!("{}+{}", base.family, kind);
    c.dedup();
    if c.gens.is_empty() {
        return base.clone();
    }
    c
}
