//! SplitMix64-seeded xoshiro256**. Every random choice of the harness comes
//! from a stream derived from VERIF_SEED.

#[derive(Clone, Debug)]
pub struct Rng {
    s: [u64; 4],
}

pub fn splitmix64(x: &mut u64) -> u64 {
    *x = x.wrapping_add(0x9E37_79B9_7F4A_7C15);
    let mut z = *x;
    z = (z ^ (z >> 30)).wrapping_mul(0xBF58_476D_1CE4_E5B9);
    z = (z ^ (z >> 27)).wrapping_mul(0x94D0_49BB_1331_11EB);
    z ^ (z >> 31)
}

/// Derive an independent stream id from a seed and a few integers.
pub fn mix(seed: u64, a: u64, b: u64) -> u64 {
    let mut x = seed ^ a.wrapping_mul(0xD6E8_FEB8_6659_FD93) ^ b.wrapping_mul(0xA076_1D64_78BD_642F);
    let r = splitmix64(&mut x);
    r ^ splitmix64(&mut x).rotate_left(17)
}

impl Rng {
    pub fn new(seed: u64) -> Self {
        let mut x = seed;
        Rng {
            s: [splitmix64(&mut x), splitmix64(&mut x), splitmix64(&mut x), splitmix64(&mut x)],
        }
    }
    pub fn next_u64(&mut self) -> u64 {
        let r = self.s[1].wrapping_mul(5).rotate_left(7).wrapping_mul(9);
        let t = self.s[1] << 17;
        self.s[2] ^= self.s[0];
        self.s[3] ^= self.s[1];
        self.s[1] ^= self.s[2];
        self.s[0] ^= self.s[3];
        self.s[2] ^= t;
        self.s[3] = self.s[3].rotate_left(45);
        r
    }
    pub fn below(&mut self, n: u64) -> u64 {
        if n == 0 {
            return 0;
        }
        ((self.next_u64() as u128 * n as u128) >> 64) as u64
    }
    pub fn range(&mut self, lo: u64, hi_incl: u64) -> u64 {
        lo + self.below(hi_incl - lo + 1)
    }
    pub fn f64(&mut self) -> f64 {
        (self.next_u64() >> 11) as f64 / (1u64 << 53) as f64
    }
    pub fn sym(&mut self) -> f64 {
        self.f64() - 0.5
    }
    pub fn chance(&mut self, p: f64) -> bool {
        self.f64() < p
    }
    pub fn pick<'a, T>(&mut self, v: &'a [T]) -> &'a T {
        &v[self.below(v.len() as u64) as usize]
    }
    pub fn shuffle<T>(&mut self, v: &mut [T]) {
        for i in (1..v.len()).rev() {
            let j = self.below(i as u64 + 1) as usize;
            v.swap(i, j);
        }
    }
}
