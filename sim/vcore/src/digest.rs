//! Bit-exact digests of results. Floats are hashed through `to_bits`, so NaN
//! payloads and the sign of zero are part of the digest: the property under
//! test says "bitwise-identical".

#[derive(Clone)]
pub struct Hasher {
    a: u64,
    b: u64,
    pub count: u64,
}

impl Default for Hasher {
    fn default() -> Self {
        Self::new()
    }
}

impl Hasher {
    pub fn new() -> Self {
        Hasher {
            a: 0xcbf29ce484222325,
            b: 0x9ae16a3b2f90404f,
            count: 0,
        }
    }
    #[inline]
    pub fn u64(&mut self, x: u64) {
        self.count += 1;
        let mut v = x;
        for _ in 0..8 {
            self.a ^= v & 0xff;
            self.a = self.a.wrapping_mul(0x0000_0100_0000_01B3);
            v >>= 8;
        }
        // second, independent lane (multiply-xorshift)
        self.b = (self.b ^ x).wrapping_mul(0xff51afd7ed558ccd);
        self.b ^= self.b >> 32;
        self.b = self.b.wrapping_add(0x9E37_79B9_7F4A_7C15);
    }
    pub fn usize(&mut self, x: usize) {
        self.u64(x as u64)
    }
    pub fn bool(&mut self, x: bool) {
        self.u64(x as u64)
    }
    pub fn f64(&mut self, x: f64) {
        self.u64(x.to_bits())
    }
    pub fn v3(&mut self, v: glam::DVec3) {
        self.f64(v.x);
        self.f64(v.y);
        self.f64(v.z);
    }
    pub fn opt_usize(&mut self, x: Option<usize>) {
        match x {
            None => self.u64(0xffff_ffff_ffff_fff1),
            Some(v) => {
                self.u64(1);
                self.usize(v)
            }
        }
    }
    pub fn opt_v3(&mut self, x: Option<glam::DVec3>) {
        match x {
            None => self.u64(0xffff_ffff_ffff_fff2),
            Some(v) => {
                self.u64(1);
                self.v3(v)
            }
        }
    }
    pub fn finish(&self) -> u128 {
        ((self.a as u128) << 64) | self.b as u128
    }
}

/// Named sub-digests of one operation's observable result.
#[derive(Clone, Debug, PartialEq, Eq)]
pub struct Digest {
    pub parts: Vec<(String, u128, u64)>,
}

impl Digest {
    pub fn new() -> Self {
        Digest { parts: vec![] }
    }
    pub fn push(&mut self, name: &str, h: &Hasher) {
        self.parts.push((name.to_string(), h.finish(), h.count));
    }
    /// First component that differs (name, self hash, other hash).
    pub fn first_diff(&self, other: &Digest) -> Option<(String, String, String)> {
        let n = self.parts.len().max(other.parts.len());
        for i in 0..n {
            match (self.parts.get(i), other.parts.get(i)) {
                (Some(a), Some(b)) => {
                    if a != b {
                        let name = if a.0 == b.0 { a.0.clone() } else { format!("{}|{}", a.0, b.0) };
                        return Some((name, format!("{:032x}", a.1), format!("{:032x}", b.1)));
                    }
                }
                (Some(a), None) => return Some((a.0.clone(), format!("{:032x}", a.1), "missing".into())),
                (None, Some(b)) => return Some((b.0.clone(), "missing".into(), format!("{:032x}", b.1))),
                (None, None) => {}
            }
        }
        None
    }
    pub fn total(&self) -> u128 {
        let mut h = Hasher::new();
        for p in &self.parts {
            h.u64((p.1 >> 64) as u64);
            h.u64(p.1 as u64);
        }
        h.finish()
    }
    pub fn values(&self) -> u64 {
        self.parts.iter().map(|p| p.2).sum()
    }
}

impl Default for Digest {
    fn default() -> Self {
        Self::new()
    }
}

/// Result of running one operation: a digest, or the panic message.
#[derive(Clone, Debug, PartialEq, Eq)]
pub enum Outcome {
    Ok(Digest),
    Panic(String),
}

impl Outcome {
    pub fn first_diff(&self, other: &Outcome) -> Option<(String, String, String)> {
        match (self, other) {
            (Outcome::Ok(a), Outcome::Ok(b)) => a.first_diff(b),
            // Both calls panicked. When more than one item of a parallel loop panics, which panic
            // reaches the caller is unspecified by rayon's contract (the sequential loop reports the
            // first in index order), so differing messages are not a difference in outcome.
            (Outcome::Panic(_), Outcome::Panic(_)) => None,
            (Outcome::Ok(_), Outcome::Panic(b)) => Some(("panicked".into(), "ok".into(), format!("panic: {}", b))),
            (Outcome::Panic(a), Outcome::Ok(_)) => Some(("panicked".into(), format!("panic: {}", a), "ok".into())),
        }
    }
    pub fn short(&self) -> String {
        match self {
            Outcome::Ok(d) => format!("{:032x}", d.total()),
            // (one line: an `assert_eq!` message spans three, and trace lines are compared line by line)
            Outcome::Panic(m) => format!("panic:{}", m.replace(['\n', '\r'], " ")),
        }
    }
}

impl Outcome {
    /// One-line, lossless (for comparison purposes) text form, used to carry a
    /// reference outcome from a pristine helper process.
    pub fn to_line(&self) -> String {
        match self {
            Outcome::Ok(d) => {
                let mut s = String::from("ok");
                for (name, h, n) in &d.parts {
                    s.push('\t');
                    s.push_str(&format!("{}={:032x}:{}", name, h, n));
                }
                s
            }
            Outcome::Panic(m) => format!("panic\t{}", m.replace('\\', "\\\\").replace('\n', "\\n").replace('\t', " ")),
        }
    }

    pub fn from_line(line: &str) -> Option<Outcome> {
        let mut it = line.split('\t');
        match it.next()? {
            "ok" => {
                let mut d = Digest::new();
                for p in it {
                    let (name, rest) = p.rsplit_once('=')?;
                    let (h, n) = rest.split_once(':')?;
                    d.parts.push((name.to_string(), u128::from_str_radix(h, 16).ok()?, n.parse().ok()?));
                }
                Some(Outcome::Ok(d))
            }
            "panic" => {
                let m = it.next().unwrap_or("");
                let mut out = String::new();
                let mut chars = m.chars();
                while let Some(c) = chars.next() {
                    if c == '\\' {
                        match chars.next() {
                            Some('n') => out.push('\n'),
                            Some('\\') => out.push('\\'),
                            Some(o) => {
                                out.push('\\');
                                out.push(o)
                            }
                            None => out.push('\\'),
                        }
                    } else {
                        out.push(c);
                    }
                }
                Some(Outcome::Panic(out))
            }
            _ => None,
        }
    }
}
