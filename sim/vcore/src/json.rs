//! Minimal JSON value, writer and parser (no external crates, so the same code
//! runs natively and under Miri and needs nothing from the registry).

use std::collections::BTreeMap;
use std::fmt::Write;

#[derive(Clone, Debug, PartialEq)]
pub enum J {
    Null,
    Bool(bool),
    Int(i128),
    Num(f64),
    Str(String),
    Arr(Vec<J>),
    Obj(BTreeMap<String, J>),
}

impl J {
    pub fn obj() -> J {
        J::Obj(BTreeMap::new())
    }
    pub fn set(mut self, k: &str, v: J) -> J {
        if let J::Obj(m) = &mut self {
            m.insert(k.to_string(), v);
        }
        self
    }
    pub fn put(&mut self, k: &str, v: J) {
        if let J::Obj(m) = self {
            m.insert(k.to_string(), v);
        }
    }
    pub fn get(&self, k: &str) -> Option<&J> {
        match self {
            J::Obj(m) => m.get(k),
            _ => None,
        }
    }
    pub fn s(v: &str) -> J {
        J::Str(v.to_string())
    }
    pub fn u(v: u64) -> J {
        J::Int(v as i128)
    }
    pub fn i(v: i64) -> J {
        J::Int(v as i128)
    }
    pub fn arr<I: IntoIterator<Item = J>>(it: I) -> J {
        J::Arr(it.into_iter().collect())
    }
    pub fn as_u64(&self) -> Option<u64> {
        match self {
            J::Int(i) if *i >= 0 => Some(*i as u64),
            J::Num(f) if *f >= 0.0 => Some(*f as u64),
            _ => None,
        }
    }
    pub fn as_f64(&self) -> Option<f64> {
        match self {
            J::Int(i) => Some(*i as f64),
            J::Num(f) => Some(*f),
            _ => None,
        }
    }
    pub fn as_str(&self) -> Option<&str> {
        match self {
            J::Str(s) => Some(s),
            _ => None,
        }
    }
    pub fn as_bool(&self) -> Option<bool> {
        match self {
            J::Bool(b) => Some(*b),
            _ => None,
        }
    }
    pub fn as_arr(&self) -> Option<&[J]> {
        match self {
            J::Arr(a) => Some(a),
            _ => None,
        }
    }

    pub fn dump(&self) -> String {
        let mut s = String::new();
        self.write(&mut s, 0, false);
        s
    }
    pub fn pretty(&self) -> String {
        let mut s = String::new();
        self.write(&mut s, 0, true);
        s.push('\n');
        s
    }
    fn write(&self, out: &mut String, ind: usize, pretty: bool) {
        match self {
            J::Null => out.push_str("null"),
            J::Bool(b) => out.push_str(if *b { "true" } else { "false" }),
            J::Int(i) => {
                let _ = write!(out, "{}", i);
            }
            J::Num(f) => {
                if f.is_finite() {
                    let _ = write!(out, "{:?}", f);
                } else {
                    out.push_str("null");
                }
            }
            J::Str(s) => {
                out.push('"');
                for c in s.chars() {
                    match c {
                        '"' => out.push_str("\\\""),
                        '\\' => out.push_str("\\\\"),
                        '\n' => out.push_str("\\n"),
                        '\r' => out.push_str("\\r"),
                        '\t' => out.push_str("\\t"),
                        c if (c as u32) < 0x20 => {
                            let _ = write!(out, "\\u{:04x}", c as u32);
                        }
                        c => out.push(c),
                    }
                }
                out.push('"');
            }
            J::Arr(a) => {
                // arrays of scalars stay on one line
                let scalar = a.iter().all(|x| !matches!(x, J::Arr(_) | J::Obj(_)));
                out.push('[');
                for (i, x) in a.iter().enumerate() {
                    if i > 0 {
                        out.push(',');
                    }
                    if pretty && !scalar {
                        out.push('\n');
                        out.push_str(&" ".repeat(ind + 1));
                    } else if pretty && i > 0 {
                        out.push(' ');
                    }
                    x.write(out, ind + 1, pretty);
                }
                if pretty && !scalar && !a.is_empty() {
                    out.push('\n');
                    out.push_str(&" ".repeat(ind));
                }
                out.push(']');
            }
            J::Obj(m) => {
                out.push('{');
                for (i, (k, v)) in m.iter().enumerate() {
                    if i > 0 {
                        out.push(',');
                    }
                    if pretty {
                        out.push('\n');
                        out.push_str(&" ".repeat(ind + 1));
                    }
                    J::Str(k.clone()).write(out, 0, false);
                    out.push(':');
                    if pretty {
                        out.push(' ');
                    }
                    v.write(out, ind + 1, pretty);
                }
                if pretty && !m.is_empty() {
                    out.push('\n');
                    out.push_str(&" ".repeat(ind));
                }
                out.push('}');
            }
        }
    }

    pub fn parse(s: &str) -> Result<J, String> {
        let b = s.as_bytes();
        let mut p = 0usize;
        let v = parse_value(b, &mut p)?;
        skip_ws(b, &mut p);
        if p != b.len() {
            return Err(format!("trailing characters at {}", p));
        }
        Ok(v)
    }
}

fn skip_ws(b: &[u8], p: &mut usize) {
    while *p < b.len() && (b[*p] as char).is_ascii_whitespace() {
        *p += 1;
    }
}

fn parse_value(b: &[u8], p: &mut usize) -> Result<J, String> {
    skip_ws(b, p);
    if *p >= b.len() {
        return Err("unexpected end".into());
    }
    match b[*p] {
        b'n' => lit(b, p, "null", J::Null),
        b't' => lit(b, p, "true", J::Bool(true)),
        b'f' => lit(b, p, "false", J::Bool(false)),
        b'"' => Ok(J::Str(parse_str(b, p)?)),
        b'[' => {
            *p += 1;
            let mut v = vec![];
            skip_ws(b, p);
            if *p < b.len() && b[*p] == b']' {
                *p += 1;
                return Ok(J::Arr(v));
            }
            loop {
                v.push(parse_value(b, p)?);
                skip_ws(b, p);
                match b.get(*p) {
                    Some(b',') => *p += 1,
                    Some(b']') => {
                        *p += 1;
                        return Ok(J::Arr(v));
                    }
                    _ => return Err(format!("expected , or ] at {}", p)),
                }
            }
        }
        b'{' => {
            *p += 1;
            let mut m = BTreeMap::new();
            skip_ws(b, p);
            if *p < b.len() && b[*p] == b'}' {
                *p += 1;
                return Ok(J::Obj(m));
            }
            loop {
                skip_ws(b, p);
                let k = parse_str(b, p)?;
                skip_ws(b, p);
                if b.get(*p) != Some(&b':') {
                    return Err(format!("expected : at {}", p));
                }
                *p += 1;
                let v = parse_value(b, p)?;
                m.insert(k, v);
                skip_ws(b, p);
                match b.get(*p) {
                    Some(b',') => *p += 1,
                    Some(b'}') => {
                        *p += 1;
                        return Ok(J::Obj(m));
                    }
                    _ => return Err(format!("expected , or }} at {}", p)),
                }
            }
        }
        _ => {
            let st = *p;
            let mut is_f = false;
            while *p < b.len() && matches!(b[*p], b'-' | b'+' | b'0'..=b'9' | b'.' | b'e' | b'E') {
                if matches!(b[*p], b'.' | b'e' | b'E') {
                    is_f = true;
                }
                *p += 1;
            }
            let t = std::str::from_utf8(&b[st..*p]).map_err(|e| e.to_string())?;
            if t.is_empty() {
                return Err(format!("unexpected character at {}", st));
            }
            if is_f {
                t.parse::<f64>().map(J::Num).map_err(|e| e.to_string())
            } else {
                t.parse::<i128>().map(J::Int).map_err(|e| e.to_string())
            }
        }
    }
}

fn lit(b: &[u8], p: &mut usize, w: &str, v: J) -> Result<J, String> {
    if b[*p..].starts_with(w.as_bytes()) {
        *p += w.len();
        Ok(v)
    } else {
        Err(format!("bad literal at {}", p))
    }
}

fn parse_str(b: &[u8], p: &mut usize) -> Result<String, String> {
    if b.get(*p) != Some(&b'"') {
        return Err(format!("expected string at {}", p));
    }
    *p += 1;
    let mut out: Vec<u8> = vec![];
    while *p < b.len() {
        match b[*p] {
            b'"' => {
                *p += 1;
                return String::from_utf8(out).map_err(|e| e.to_string());
            }
            b'\\' => {
                *p += 1;
                match b.get(*p) {
                    Some(b'n') => out.push(b'\n'),
                    Some(b'r') => out.push(b'\r'),
                    Some(b't') => out.push(b'\t'),
                    Some(b'b') => out.push(8),
                    Some(b'f') => out.push(12),
                    Some(b'/') => out.push(b'/'),
                    Some(b'\\') => out.push(b'\\'),
                    Some(b'"') => out.push(b'"'),
                    Some(b'u') => {
                        let h = std::str::from_utf8(&b[*p + 1..*p + 5]).map_err(|e| e.to_string())?;
                        let c = u32::from_str_radix(h, 16).map_err(|e| e.to_string())?;
                        let ch = char::from_u32(c).unwrap_or('?');
                        let mut buf = [0u8; 4];
                        out.extend_from_slice(ch.encode_utf8(&mut buf).as_bytes());
                        *p += 4;
                    }
                    _ => return Err("bad escape".into()),
                }
                *p += 1;
            }
            c => {
                out.push(c);
                *p += 1;
            }
        }
    }
    Err("unterminated string".into())
}
