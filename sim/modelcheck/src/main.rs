//! Model validation for `sim_rayon` (DESIGN.md §7 "model validation").
//!
//! E1 may only ever flag code whose result is NOT fixed by rayon's documented
//! contract. So: for pipelines whose result the contract does fix (ordered
//! collect of indexed and unindexed iterators, zip/enumerate alignment,
//! associative reductions, find_first/position_first, stable sorts, chunking,
//! each-item-once for `for_each`/`par_bridge`), the model must return exactly
//! that result under EVERY schedule, pool size and split mode. Each template is
//! run three ways - std iterators, the real rayon, sim_rayon under many seeded
//! schedules - and all must agree. For contract-free pipelines (par_bridge
//! order, unstable sort of tied keys, float reduce, find_any) the model must
//! produce only LEGAL outcomes, and must produce more than one (reach).
//!
//!   modelcheck <seed> <schedules-per-template>
//! Exit 0: model agrees; 1: disagreement (a line `MODEL-MISMATCH ...`).

use sim_rayon::sim::{SchedMode, Sim, SimConfig, SplitMode};
use std::collections::BTreeSet;
use std::sync::atomic::{AtomicU64, Ordering};
use std::sync::Mutex;

const POOLS: &[usize] = &[1, 2, 3, 4, 7, 16, 64];
const SPLITS: &[SplitMode] = &[SplitMode::Adaptive, SplitMode::Random, SplitMode::PerItem, SplitMode::Whole];
const SCHEDS: &[SchedMode] = &[
    SchedMode::Seq,
    SchedMode::Rev,
    SchedMode::LeafRandom,
    SchedMode::Interleave,
    SchedMode::Pct,
    SchedMode::Stall,
];

fn sm(x: &mut u64) -> u64 {
    *x = x.wrapping_add(0x9E37_79B9_7F4A_7C15);
    let mut z = *x;
    z = (z ^ (z >> 30)).wrapping_mul(0xBF58_476D_1CE4_E5B9);
    z = (z ^ (z >> 27)).wrapping_mul(0x94D0_49BB_1331_11EB);
    z ^ (z >> 31)
}

/// Run `f` under one simulated schedule derived from `seed`.
fn under_sim<T: Send>(seed: u64, f: impl FnOnce() -> T + Send) -> T {
    let mut s = seed;
    let cfg = SimConfig {
        pool_sizes: vec![POOLS[(sm(&mut s) % POOLS.len() as u64) as usize]],
        split: SPLITS[(sm(&mut s) % SPLITS.len() as u64) as usize],
        sched: SCHEDS[(sm(&mut s) % SCHEDS.len() as u64) as usize],
        preempt_hooks: false,
        preempt_bb: false,
        mean_gap: [1u32, 2, 8][(sm(&mut s) % 3) as usize],
        pct_depth: 1 + (sm(&mut s) % 3) as u32,
        watchdog_s: 30,
    };
    std::thread::scope(|sc| {
        sc.spawn(move || {
            let sim = Sim::new(cfg, sm(&mut s), None);
            sim.install();
            let r = f();
            Sim::uninstall();
            sim.shutdown();
            r
        })
        .join()
        .expect("simulated pipeline panicked")
    })
}

fn data(seed: u64, n: usize) -> Vec<u64> {
    let mut s = seed;
    (0..n).map(|_| sm(&mut s) % 1000).collect()
}

/// A template: the same pipeline written against three preludes.
macro_rules! template {
    ($name:ident, |$v:ident, $w:ident| $body:expr) => {
        mod $name {
            pub fn seq($v: &[u64], $w: &[u64]) -> String {
                #[allow(unused_imports)]
                use crate::seqshim::*;
                format!("{:?}", $body)
            }
            pub fn real($v: &[u64], $w: &[u64]) -> String {
                #[allow(unused_imports)]
                use rayon::prelude::*;
                format!("{:?}", $body)
            }
            pub fn sim($v: &[u64], $w: &[u64]) -> String {
                #[allow(unused_imports)]
                use sim_rayon::prelude::*;
                format!("{:?}", $body)
            }
        }
    };
}

/// std-iterator stand-ins for the rayon names used by the templates, giving
/// the result rayon's contract prescribes.
mod seqshim {
    pub trait SeqSlice<T> {
        fn par_iter(&self) -> std::slice::Iter<'_, T>;
        fn par_chunks(&self, n: usize) -> std::slice::Chunks<'_, T>;
        fn par_windows(&self, n: usize) -> std::slice::Windows<'_, T>;
    }
    impl<T> SeqSlice<T> for [T] {
        fn par_iter(&self) -> std::slice::Iter<'_, T> {
            self.iter()
        }
        fn par_chunks(&self, n: usize) -> std::slice::Chunks<'_, T> {
            self.chunks(n)
        }
        fn par_windows(&self, n: usize) -> std::slice::Windows<'_, T> {
            self.windows(n)
        }
    }
    pub trait SeqInto: IntoIterator + Sized {
        fn into_par_iter(self) -> Self::IntoIter {
            self.into_iter()
        }
    }
    impl<T: IntoIterator + Sized> SeqInto for T {}
    pub trait SeqIter: Iterator + Sized {
        fn flat_map_iter<U: IntoIterator, F: FnMut(Self::Item) -> U>(self, f: F) -> std::iter::FlatMap<Self, U, F> {
            self.flat_map(f)
        }
        fn flatten_iter(self) -> std::iter::Flatten<Self>
        where
            Self::Item: IntoIterator,
        {
            self.flatten()
        }
        fn with_min_len(self, _n: usize) -> Self {
            self
        }
        fn with_max_len(self, _n: usize) -> Self {
            self
        }
        fn find_first<P: FnMut(&Self::Item) -> bool>(mut self, p: P) -> Option<Self::Item> {
            self.find(p)
        }
        fn position_first<P: FnMut(Self::Item) -> bool>(mut self, p: P) -> Option<usize> {
            self.position(p)
        }
        fn map_init<S, I: Fn() -> S, R, F: FnMut(&mut S, Self::Item) -> R>(self, init: I, mut f: F) -> impl Iterator<Item = R> {
            let mut s = init();
            self.map(move |x| f(&mut s, x))
        }
        fn reduce_with_id<ID: Fn() -> Self::Item, F: FnMut(Self::Item, Self::Item) -> Self::Item>(self, id: ID, f: F) -> Self::Item {
            self.fold(id(), f)
        }
    }
    impl<I: Iterator + Sized> SeqIter for I {}
}

// ---- contract-fixed templates ------------------------------------------------

template!(t_map_collect, |v, _w| v.par_iter().map(|x| x * 3 + 1).collect::<Vec<u64>>());
template!(t_filter_collect, |v, _w| v.par_iter().filter(|x| **x % 3 != 0).map(|x| *x).collect::<Vec<u64>>());
template!(t_filter_map_collect, |v, _w| v
    .par_iter()
    .filter_map(|x| if x % 2 == 0 { Some(x / 2) } else { None })
    .collect::<Vec<u64>>());
template!(t_enumerate, |v, _w| v.par_iter().enumerate().map(|(i, x)| i as u64 * 1000 + x).collect::<Vec<u64>>());
template!(t_zip, |v, w| v.par_iter().zip(w.par_iter()).map(|(a, b)| a * 1000 + b).collect::<Vec<u64>>());
template!(t_zip_filter_map, |v, w| v
    .par_iter()
    .zip(w.par_iter())
    .filter_map(|(a, b)| if (a + b) % 3 == 0 { None } else { Some(a * 1000 + b) })
    .collect::<Vec<u64>>());
template!(t_enumerate_zip_filter, |v, w| v
    .par_iter()
    .enumerate()
    .zip(w.par_iter())
    .filter(|((i, _), b)| (*i as u64 + **b) % 4 != 1)
    .map(|((i, a), b)| (i, *a, *b))
    .collect::<Vec<(usize, u64, u64)>>());
template!(t_flat_map_iter, |v, _w| v
    .par_iter()
    .flat_map_iter(|x| (0..(x % 4)).map(move |k| x * 10 + k))
    .collect::<Vec<u64>>());
template!(t_map_flatten_vecs, |v, _w| v
    .par_iter()
    .map(|x| (0..(x % 3)).map(|k| x + k).collect::<Vec<u64>>())
    .flatten_iter()
    .collect::<Vec<u64>>());
template!(t_range_into, |v, _w| (0..v.len())
    .into_par_iter()
    .map(|i| v[i] + i as u64)
    .collect::<Vec<u64>>());
template!(t_vec_into, |v, _w| v.to_vec().into_par_iter().map(|x| x ^ 5).collect::<Vec<u64>>());
template!(t_rev, |v, _w| v.par_iter().rev().map(|x| *x).collect::<Vec<u64>>());
template!(t_skip_take, |v, _w| v.par_iter().skip(2).take(7).map(|x| *x).collect::<Vec<u64>>());
template!(t_chunks_sum, |v, _w| v.par_chunks(3).map(|c| c.iter().sum::<u64>()).collect::<Vec<u64>>());
template!(t_windows, |v, _w| v.par_windows(2).map(|c| c[0] * 1000 + c[1]).collect::<Vec<u64>>());
template!(t_sum_int, |v, _w| v.par_iter().map(|x| *x).sum::<u64>());
template!(t_count, |v, _w| v.par_iter().filter(|x| **x > 500).count());
template!(t_min_max, |v, _w| (v.par_iter().min().copied(), v.par_iter().max().copied()));
template!(t_min_by_key_first, |v, _w| v.par_iter().enumerate().min_by_key(|(_, x)| **x / 100).map(|(i, _)| i));
template!(t_find_first, |v, _w| v.par_iter().find_first(|x| **x % 7 == 0).copied());
template!(t_position_first, |v, _w| v.par_iter().position_first(|x| *x % 5 == 0));
template!(t_all_any, |v, _w| (v.par_iter().all(|x| *x < 999), v.par_iter().any(|x| *x == 13)));
template!(t_min_len, |v, _w| v.par_iter().with_min_len(4).map(|x| x + 1).collect::<Vec<u64>>());
template!(t_max_len, |v, _w| v.par_iter().with_max_len(2).enumerate().map(|(i, x)| x + i as u64).collect::<Vec<u64>>());
template!(t_unzip, |v, _w| {
    let (a, b): (Vec<u64>, Vec<u64>) = v.par_iter().map(|x| (x / 2, x % 2)).unzip();
    (a, b)
});
template!(t_collect_string_vec, |v, _w| v.par_iter().map(|x| format!("{}", x)).collect::<Vec<String>>());
template!(t_nested, |v, w| v
    .par_iter()
    .map(|x| w.par_iter().map(|y| (x * y) % 11).collect::<Vec<u64>>().len() as u64 + x)
    .collect::<Vec<u64>>());

type Tpl = (&'static str, fn(&[u64], &[u64]) -> String, fn(&[u64], &[u64]) -> String, fn(&[u64], &[u64]) -> String);

macro_rules! tpl {
    ($n:ident) => {
        (stringify!($n), $n::seq as fn(&[u64], &[u64]) -> String, $n::real as fn(&[u64], &[u64]) -> String, $n::sim as fn(&[u64], &[u64]) -> String)
    };
}

fn templates() -> Vec<Tpl> {
    vec![
        tpl!(t_map_collect),
        tpl!(t_filter_collect),
        tpl!(t_filter_map_collect),
        tpl!(t_enumerate),
        tpl!(t_zip),
        tpl!(t_zip_filter_map),
        tpl!(t_enumerate_zip_filter),
        tpl!(t_flat_map_iter),
        tpl!(t_map_flatten_vecs),
        tpl!(t_range_into),
        tpl!(t_vec_into),
        tpl!(t_rev),
        tpl!(t_skip_take),
        tpl!(t_chunks_sum),
        tpl!(t_windows),
        tpl!(t_sum_int),
        tpl!(t_count),
        tpl!(t_min_max),
        tpl!(t_min_by_key_first),
        tpl!(t_find_first),
        tpl!(t_position_first),
        tpl!(t_all_any),
        tpl!(t_min_len),
        tpl!(t_max_len),
        tpl!(t_unzip),
        tpl!(t_collect_string_vec),
        tpl!(t_nested),
    ]
}

// ---- hand-written checks (not expressible with the shim) -----------------------

/// fold + reduce with list concatenation (associative, not commutative): order kept.
fn fold_reduce_concat_sim(v: &[u64]) -> Vec<u64> {
    use sim_rayon::prelude::*;
    v.par_iter()
        .fold(Vec::new, |mut a, x| {
            a.push(*x);
            a
        })
        .reduce(Vec::new, |mut a, mut b| {
            a.append(&mut b);
            a
        })
}

fn for_each_once_sim(v: &[u64]) -> (u64, u64) {
    use sim_rayon::prelude::*;
    let sum = AtomicU64::new(0);
    let cnt = AtomicU64::new(0);
    v.par_iter().for_each(|x| {
        sum.fetch_add(*x, Ordering::Relaxed);
        cnt.fetch_add(1, Ordering::Relaxed);
    });
    (sum.load(Ordering::Relaxed), cnt.load(Ordering::Relaxed))
}

fn par_bridge_sim(v: &[u64]) -> Vec<(usize, u64)> {
    use sim_rayon::prelude::*;
    v.iter().copied().enumerate().par_bridge().map(|(i, x)| (i, x + 1)).collect()
}

fn chunks_mut_sim(v: &[u64]) -> Vec<u64> {
    use sim_rayon::prelude::*;
    let mut out = vec![0u64; v.len()];
    out.par_chunks_mut(4).enumerate().for_each(|(c, slot)| {
        for (k, s) in slot.iter_mut().enumerate() {
            *s = v[c * 4 + k] * 2;
        }
    });
    out
}

fn par_iter_mut_sim(v: &[u64]) -> Vec<u64> {
    use sim_rayon::prelude::*;
    let mut out = v.to_vec();
    out.par_iter_mut().enumerate().for_each(|(i, x)| *x += i as u64);
    out
}

fn stable_sort_sim(v: &[u64]) -> Vec<(u64, usize)> {
    use sim_rayon::prelude::*;
    let mut p: Vec<(u64, usize)> = v.iter().map(|x| x / 100).zip(0..).collect();
    p.par_sort_by_key(|e| e.0);
    p
}

fn unstable_sort_sim(v: &[u64]) -> Vec<(u64, usize)> {
    use sim_rayon::prelude::*;
    let mut p: Vec<(u64, usize)> = v.iter().map(|x| x / 100).zip(0..).collect();
    p.par_sort_unstable_by_key(|e| e.0);
    p
}

fn float_sum_sim(v: &[u64]) -> u64 {
    use sim_rayon::prelude::*;
    v.par_iter().map(|x| 1.0 / (*x as f64 + 0.1)).sum::<f64>().to_bits()
}

fn find_any_sim(v: &[u64]) -> Option<u64> {
    use sim_rayon::prelude::*;
    v.par_iter().find_any(|x| **x % 2 == 0).copied()
}

fn scope_spawn_sim(v: &[u64]) -> Vec<u64> {
    let out = Mutex::new(vec![0u64; v.len()]);
    sim_rayon::scope(|s| {
        for (i, x) in v.iter().enumerate() {
            let out = &out;
            s.spawn(move |_| {
                out.lock().unwrap()[i] = x + 7;
            });
        }
    });
    out.into_inner().unwrap()
}

fn join_sim(v: &[u64]) -> (u64, u64) {
    let h = v.len() / 2;
    sim_rayon::join(|| v[..h].iter().sum::<u64>(), || v[h..].iter().sum::<u64>())
}

macro_rules! both {
    ($name:ident, |$v:ident, $w:ident| $body:expr) => {
        mod $name {
            pub fn real($v: &[u64], $w: &[u64]) -> String {
                #[allow(unused_imports)]
                use rayon::prelude::*;
                format!("{:?}", $body)
            }
            pub fn sim($v: &[u64], $w: &[u64]) -> String {
                #[allow(unused_imports)]
                use sim_rayon::prelude::*;
                format!("{:?}", $body)
            }
        }
    };
}
// same source against the real rayon and the model (no std equivalent)
both!(b_interleave, |v, w| v.par_iter().interleave(w.par_iter()).map(|x| *x).collect::<Vec<u64>>());
both!(b_interleave_shortest, |v, w| v.par_iter().interleave_shortest(w.par_iter()).map(|x| *x).collect::<Vec<u64>>());
both!(b_multizip2, |v, w| (v.par_iter(), w.par_iter()).into_par_iter().map(|(a, b)| a * 1000 + b).collect::<Vec<u64>>());
both!(b_multizip3, |v, w| (v.par_iter(), w.par_iter(), v.par_iter()).into_par_iter().map(|(a, b, c)| a + b + c).collect::<Vec<u64>>());
both!(b_fold_chunks, |v, _w| v.par_iter().fold_chunks(3, || 0u64, |a, x| a * 7 + x).collect::<Vec<u64>>());
both!(b_try_fold_reduce, |v, _w| v
    .par_iter()
    .try_fold(|| 0u64, |a, x| a.checked_add(*x))
    .try_reduce(|| 0u64, |a, b| a.checked_add(b)));
both!(b_try_fold_fail, |v, _w| v
    .par_iter()
    .try_fold(|| 0u64, |a, x| if *x == 999 { None } else { Some(a + x) })
    .try_reduce(|| 0u64, |a, b| Some(a + b))
    .is_some()
    == v.iter().all(|x| *x != 999));
both!(b_par_drain, |v, _w| {
    let mut x = v.to_vec();
    let lo = x.len() / 4;
    let hi = x.len() - x.len() / 4;
    let d: Vec<u64> = x.par_drain(lo..hi).map(|y| y + 1).collect();
    (d, x)
});
both!(b_collect_vec_list, |v, _w| v.par_iter().map(|x| x + 2).collect_vec_list().into_iter().flatten().collect::<Vec<u64>>());

fn take_any_sim(v: &[u64], n: usize) -> Vec<(usize, u64)> {
    use sim_rayon::prelude::*;
    v.par_iter().copied().enumerate().take_any(n).collect()
}

fn thread_index_sim() -> (bool, usize) {
    use sim_rayon::prelude::*;
    let k = sim_rayon::current_num_threads();
    let ok = (0..64usize)
        .into_par_iter()
        .map(|_| sim_rayon::current_thread_index().map_or(false, |i| i < k))
        .collect::<Vec<bool>>()
        .into_iter()
        .all(|b| b);
    (ok, k)
}

/// `broadcast` from outside the pool and from a worker (nested in a parallel iterator): one result per
/// worker, in index order, each run on the worker it names. Then `spawn_broadcast` followed by a parallel
/// loop: every worker's copy has run by the time a later blocking `broadcast` returns (per-worker FIFO).
fn broadcast_sim() -> (bool, usize, u8) {
    use sim_rayon::prelude::*;
    use std::sync::atomic::{AtomicUsize, Ordering};
    let k = sim_rayon::current_num_threads();
    let outer = sim_rayon::broadcast(|ctx| (ctx.index(), ctx.num_threads(), sim_rayon::current_thread_index()));
    let mut ok = outer.len() == k && outer.iter().enumerate().all(|(i, (ix, n, cur))| *ix == i && *n == k && *cur == Some(i));
    let nested: Vec<Vec<usize>> = (0..3usize).into_par_iter().map(|_| sim_rayon::broadcast(|ctx| ctx.index())).collect();
    ok &= nested.iter().all(|v| v.len() == k && v.iter().enumerate().all(|(i, x)| *x == i));
    static HITS: AtomicUsize = AtomicUsize::new(0);
    static WARM: [std::sync::atomic::AtomicBool; 64] = [const { std::sync::atomic::AtomicBool::new(false) }; 64];
    HITS.store(0, Ordering::SeqCst);
    for w in WARM.iter() {
        w.store(false, Ordering::SeqCst);
    }
    sim_rayon::spawn_broadcast(|ctx| {
        WARM[ctx.index() % 64].store(true, Ordering::SeqCst);
        HITS.fetch_add(1, Ordering::SeqCst);
    });
    // work that may overtake the warm-up on a worker (that is the point of the model): did the item's own
    // worker already run its copy?
    let seen: Vec<bool> = (0..64usize)
        .into_par_iter()
        .map(|_| WARM[sim_rayon::current_thread_index().unwrap_or(0) % 64].load(Ordering::SeqCst))
        .collect();
    // 0 = every item ran on a warmed-up worker, 1 = none did, 2 = mixed
    let overtaken = if seen.iter().all(|b| *b) { 0 } else if seen.iter().all(|b| !*b) { 1 } else { 2 };
    let _ = sim_rayon::broadcast(|_| ());
    ok &= HITS.load(Ordering::SeqCst) == k;
    (ok, k, overtaken)
}

fn main() {
    let a: Vec<String> = std::env::args().collect();
    let seed: u64 = a.get(1).and_then(|s| s.parse().ok()).unwrap_or(1);
    let per: u64 = a.get(2).and_then(|s| s.parse().ok()).unwrap_or(40);
    std::panic::set_hook(Box::new(|_| {}));
    let mut bad = 0u64;
    let mut evals = 0u64;
    let mut mismatch = |what: &str, case: u64, detail: String| {
        println!("MODEL-MISMATCH template={} case={} {}", what, case, detail);
    };

    let tpls = templates();
    for (ti, (name, seq, real, sim)) in tpls.iter().enumerate() {
        for k in 0..per {
            let mut s = seed ^ ((ti as u64) << 32) ^ k;
            let n = [0usize, 1, 2, 3, 5, 8, 13, 31, 64, 100][(sm(&mut s) % 10) as usize];
            let v = data(sm(&mut s), n);
            let w = data(sm(&mut s), if k % 3 == 0 { n } else { (n + 3) / 2 });
            let expect = seq(&v, &w);
            if k < 3 {
                let r = real(&v, &w);
                evals += 1;
                if r != expect {
                    bad += 1;
                    mismatch(name, k, format!("real rayon disagrees with the sequential semantics: {} vs {}", r, expect));
                }
            }
            let (sim_fn, vv, ww) = (*sim, v.clone(), w.clone());
            let got = under_sim(sm(&mut s), move || sim_fn(&vv, &ww));
            evals += 1;
            if got != expect {
                bad += 1;
                mismatch(name, k, format!("n={} sim={} expected={}", n, got, expect));
            }
        }
    }

    // model vs real rayon on the same source
    type B = (&'static str, fn(&[u64], &[u64]) -> String, fn(&[u64], &[u64]) -> String);
    let boths: Vec<B> = vec![
        ("interleave", b_interleave::real, b_interleave::sim),
        ("interleave_shortest", b_interleave_shortest::real, b_interleave_shortest::sim),
        ("multizip2", b_multizip2::real, b_multizip2::sim),
        ("multizip3", b_multizip3::real, b_multizip3::sim),
        ("fold_chunks", b_fold_chunks::real, b_fold_chunks::sim),
        ("try_fold_reduce", b_try_fold_reduce::real, b_try_fold_reduce::sim),
        ("try_fold_fail", b_try_fold_fail::real, b_try_fold_fail::sim),
        ("par_drain", b_par_drain::real, b_par_drain::sim),
        ("collect_vec_list", b_collect_vec_list::real, b_collect_vec_list::sim),
    ];
    for (bi, (name, real, sim)) in boths.iter().enumerate() {
        for k in 0..per {
            let mut s = seed ^ 0x77_0000_0000 ^ ((bi as u64) << 24) ^ k;
            let n = [0usize, 1, 2, 3, 5, 8, 13, 31, 64][(sm(&mut s) % 9) as usize];
            let v = data(sm(&mut s), n);
            let w = data(sm(&mut s), if k % 2 == 0 { n } else { (n + 3) / 2 });
            let expect = real(&v, &w);
            let (sim_fn, vv, ww) = (*sim, v.clone(), w.clone());
            let got = under_sim(sm(&mut s), move || sim_fn(&vv, &ww));
            evals += 1;
            if got != expect {
                bad += 1;
                mismatch(name, k, format!("n={} sim={} real={}", n, got, expect));
            }
        }
    }
    for k in 0..per {
        let mut s = seed ^ 0x55_0000 ^ k;
        let n = 1 + (sm(&mut s) % 40) as usize;
        let v = data(sm(&mut s), n);
        let take = (sm(&mut s) % (n as u64 + 2)) as usize;
        let vv = v.clone();
        let got = under_sim(sm(&mut s), move || take_any_sim(&vv, take));
        evals += 1;
        let legal = got.len() == take.min(n) && got.windows(2).all(|p| p[0].0 < p[1].0) && got.iter().all(|(i, x)| v[*i] == *x);
        if !legal {
            bad += 1;
            mismatch("take_any_legal", k, format!("{:?}", got));
        }
    }

    // hand-written, contract-fixed
    let mut distinct_bridge = BTreeSet::new();
    let mut distinct_unstable = BTreeSet::new();
    let mut distinct_fsum = BTreeSet::new();
    let mut distinct_find_any = BTreeSet::new();
    let mut distinct_broadcast = BTreeSet::new();
    for k in 0..per.max(60) {
        let mut s = seed ^ 0xABCD_0000 ^ k;
        let n = [1usize, 2, 5, 9, 16, 33, 70][(sm(&mut s) % 7) as usize];
        let v = data(sm(&mut s), n);
        let sd = sm(&mut s);
        evals += 12;

        let vv = v.clone();
        if under_sim(sd, move || fold_reduce_concat_sim(&vv)) != v {
            bad += 1;
            mismatch("fold_reduce_concat", k, "order not preserved".into());
        }
        let vv = v.clone();
        let (sum, cnt) = under_sim(sd ^ 1, move || for_each_once_sim(&vv));
        if sum != v.iter().sum::<u64>() || cnt != n as u64 {
            bad += 1;
            mismatch("for_each_once", k, format!("sum={} cnt={}", sum, cnt));
        }
        let vv = v.clone();
        let br = under_sim(sd ^ 2, move || par_bridge_sim(&vv));
        let mut sorted = br.clone();
        sorted.sort();
        let want: Vec<(usize, u64)> = v.iter().enumerate().map(|(i, x)| (i, x + 1)).collect();
        if sorted != want {
            bad += 1;
            mismatch("par_bridge_each_once", k, format!("{:?}", br));
        }
        if n >= 5 {
            distinct_bridge.insert(format!("{}:{:?}", k % 7, br != want));
        }
        let vv = v.clone();
        if under_sim(sd ^ 3, move || chunks_mut_sim(&vv)) != v.iter().map(|x| x * 2).collect::<Vec<u64>>() {
            bad += 1;
            mismatch("par_chunks_mut", k, String::new());
        }
        let vv = v.clone();
        if under_sim(sd ^ 4, move || par_iter_mut_sim(&vv)) != v.iter().enumerate().map(|(i, x)| x + i as u64).collect::<Vec<u64>>() {
            bad += 1;
            mismatch("par_iter_mut", k, String::new());
        }
        let vv = v.clone();
        let st = under_sim(sd ^ 5, move || stable_sort_sim(&vv));
        let mut want: Vec<(u64, usize)> = v.iter().map(|x| x / 100).zip(0..).collect();
        want.sort_by_key(|e| e.0);
        if st != want {
            bad += 1;
            mismatch("par_sort_by_key_stable", k, format!("{:?} vs {:?}", st, want));
        }
        let vv = v.clone();
        let us = under_sim(sd ^ 6, move || unstable_sort_sim(&vv));
        let mut us_sorted = us.clone();
        us_sorted.sort();
        let mut want_sorted = want.clone();
        want_sorted.sort();
        if us_sorted != want_sorted || us.windows(2).any(|p| p[0].0 > p[1].0) {
            bad += 1;
            mismatch("par_sort_unstable_legal", k, format!("{:?}", us));
        }
        if n >= 16 {
            distinct_unstable.insert(us != want);
        }
        let vv = v.clone();
        let fs = under_sim(sd ^ 7, move || float_sum_sim(&vv));
        let exact: f64 = v.iter().map(|x| 1.0 / (*x as f64 + 0.1)).sum();
        if (f64::from_bits(fs) - exact).abs() > 1e-9 * exact.abs().max(1.0) {
            bad += 1;
            mismatch("float_sum_close", k, format!("{} vs {}", f64::from_bits(fs), exact));
        }
        if n >= 33 {
            distinct_fsum.insert(fs == exact.to_bits());
        }
        let vv = v.clone();
        let fa = under_sim(sd ^ 8, move || find_any_sim(&vv));
        let legal = match fa {
            Some(x) => x % 2 == 0 && v.contains(&x),
            None => v.iter().all(|x| x % 2 == 1),
        };
        if !legal {
            bad += 1;
            mismatch("find_any_legal", k, format!("{:?}", fa));
        }
        if n >= 16 {
            distinct_find_any.insert(fa == v.iter().find(|x| **x % 2 == 0).copied());
        }
        let vv = v.clone();
        if under_sim(sd ^ 9, move || scope_spawn_sim(&vv)) != v.iter().map(|x| x + 7).collect::<Vec<u64>>() {
            bad += 1;
            mismatch("scope_spawn", k, String::new());
        }
        let vv = v.clone();
        let (l, r) = under_sim(sd ^ 10, move || join_sim(&vv));
        if l + r != v.iter().sum::<u64>() {
            bad += 1;
            mismatch("join", k, String::new());
        }
        let (ok, kk) = under_sim(sd ^ 11, thread_index_sim);
        if !ok || !POOLS.contains(&kk) {
            bad += 1;
            mismatch("current_thread_index", k, format!("k={}", kk));
        }
        let (ok, kk, overtaken) = under_sim(sd ^ 12, broadcast_sim);
        evals += 1;
        if !ok {
            bad += 1;
            mismatch("broadcast", k, format!("k={}", kk));
        }
        if std::env::var("MC_DEBUG").is_ok() {
            eprintln!("broadcast k={} overtaken={}", kk, overtaken);
        }
        if kk >= 2 {
            distinct_broadcast.insert(overtaken);
        }
    }
    // the clock seam: std's clocks, read on a simulated thread, follow the simulator's offset
    {
        let prev = sim_rayon::clock::set_thread_sim_time(true);
        let t = std::time::Instant::now();
        let st = std::time::SystemTime::now();
        sim_rayon::clock::advance_ns(5_000_000_000);
        let (e, se) = (t.elapsed(), st.elapsed().unwrap_or_default());
        sim_rayon::clock::set_thread_sim_time(false);
        let t2 = std::time::Instant::now();
        sim_rayon::clock::advance_ns(5_000_000_000);
        let e2 = t2.elapsed();
        sim_rayon::clock::set_thread_sim_time(prev);
        evals += 1;
        if e.as_secs() < 5 || se.as_secs() < 5 || e2.as_secs() >= 1 {
            bad += 1;
            println!("MODEL-MISMATCH clock seam: simulated thread saw {:?} / {:?} (want >= 5 s), unmarked thread saw {:?} (want ~0)", e, se, e2);
        }
        sim_rayon::clock::reset();
    }

    // the machine-size seam: available_parallelism on a simulated thread is what the run was given
    {
        let real = std::thread::available_parallelism().map(|n| n.get()).unwrap_or(0);
        for want in [1usize, 3, 16, 64, 256] {
            sim_rayon::sys::set_sim_cpus(want);
            let prev = sim_rayon::clock::set_thread_sim_time(true);
            let got = std::thread::available_parallelism().map(|n| n.get()).unwrap_or(0);
            sim_rayon::clock::set_thread_sim_time(false);
            let unmarked = std::thread::available_parallelism().map(|n| n.get()).unwrap_or(0);
            sim_rayon::clock::set_thread_sim_time(prev);
            evals += 1;
            if got != want || unmarked != real {
                bad += 1;
                println!("MODEL-MISMATCH machine-size seam: simulated thread saw {} CPUs (want {}), unmarked thread saw {} (want {})", got, want, unmarked, real);
            }
        }
        sim_rayon::sys::set_sim_cpus(0);
        let prev = sim_rayon::clock::set_thread_sim_time(true);
        let got = std::thread::available_parallelism().map(|n| n.get()).unwrap_or(0);
        sim_rayon::clock::set_thread_sim_time(prev);
        evals += 1;
        if got != real {
            bad += 1;
            println!("MODEL-MISMATCH machine-size seam: off, simulated thread saw {} CPUs, real {}", got, real);
        }
    }

    // reach: the contract-free pipelines must actually vary
    let reach = [
        ("par_bridge order differs from input order in some schedule", distinct_bridge.iter().any(|s| s.ends_with("true"))),
        ("unstable sort permutes tied keys in some schedule", distinct_unstable.contains(&true)),
        ("float sum differs in the last bits in some schedule", distinct_fsum.contains(&false)),
        ("find_any returns a later match in some schedule", distinct_find_any.contains(&false)),
        ("an item overtakes its own worker's spawn_broadcast job in some schedule, and in some it does not", distinct_broadcast.len() >= 2),
    ];
    for (what, hit) in reach {
        if !hit {
            bad += 1;
            println!("MODEL-MISMATCH reach: never observed: {}", what);
        }
    }
    println!("modelcheck: templates={} evaluations={} mismatches={}", tpls.len() + boths.len() + 13, evals, bad);
    std::process::exit(if bad == 0 { 0 } else { 1 });
}
