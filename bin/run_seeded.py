#!/usr/bin/env python3
"""Run the registered checks against every seeded breaking change, the prescribed way:

    git -C /repo apply seeded/<id>/patch.diff ; ./check <prop> <tier> ; git -C /repo checkout -- .

and record the outcome in seeded/<id>/meta.json (fields under "runs"). /repo must be
clean; it is restored after every run, also on failure. The evidence files in
/verif/evidence are restored afterwards as well (they must describe the unchanged tree).

  run_seeded.py [quick|thorough] [id-prefix ...]
  run_seeded.py --neutral [quick|thorough] [id-prefix ...]   the property-preserving refactorings in neutral/:
                                                             the check has to stay silent (exit 0)
"""
import json, os, re, shutil, subprocess, sys, time

VERIF = os.path.dirname(os.path.dirname(os.path.abspath(__file__)))
SEEDED = os.path.join(VERIF, "seeded")
REPO = os.environ.get("VERIF_REPO", "/repo")  # the registered procedure uses /repo; a background sweep may point at a copy


def sh(cmd, cwd=None, timeout=None):
    p = subprocess.run(cmd, cwd=cwd, shell=isinstance(cmd, str), stdout=subprocess.PIPE, stderr=subprocess.STDOUT, text=True, timeout=timeout)
    return p.returncode, p.stdout


def main():
    args = sys.argv[1:]
    neutral = False
    if args and args[0] == "--neutral":
        neutral = True
        args.pop(0)
    global SEEDED
    if neutral:
        SEEDED = os.path.join(VERIF, "neutral")
    tier = "quick"
    if args and args[0] in ("quick", "thorough"):
        tier = args.pop(0)
    def patch_of(i):
        for n in ("patch.ported.diff", "patch.diff"):
            if os.path.isfile(os.path.join(SEEDED, i, n)):
                return os.path.join(SEEDED, i, n)
        return None
    ids = sorted(d for d in os.listdir(SEEDED) if patch_of(d))
    if args:
        ids = [i for i in ids if any(i.startswith(a) for a in args)]
    rc, out = sh("git status --porcelain", REPO)
    if out.strip():
        print("/repo is not clean:\n" + out)
        return 2
    os.makedirs(os.path.join(VERIF, "out", "seeded"), exist_ok=True)
    summary = []
    for i in ids:
        d = os.path.join(SEEDED, i)
        mp = os.path.join(d, "meta.json")
        meta = json.load(open(mp)) if os.path.exists(mp) else {}
        prop = meta.get("property") or ("C09" if ("_c09_" in i or i.startswith("n09")) else "C20")
        ev = os.path.join(VERIF, "evidence", prop + ".json")
        bak = ev + ".bak"
        if os.path.exists(ev):
            shutil.copy(ev, bak)
        rc, out = sh(["git", "apply", patch_of(i)], REPO)
        if rc != 0:
            print(i, "patch does not apply:", out)
            summary.append((i, "patch-does-not-apply"))
            continue
        t = time.time()
        try:
            rc, out = sh(["./check", prop, tier], VERIF, timeout=4 * 3600)
        finally:
            sh("git checkout -- . && git clean -fdq -e Cargo.lock", REPO)
            if os.path.exists(bak):
                shutil.move(bak, ev)
        wall = time.time() - t
        open(os.path.join(VERIF, "out", "seeded", "%s.%s.log" % (i, tier)), "w").write(out)
        vio = [l for l in out.splitlines() if l.startswith("VIOLATION")]
        first = [l for l in out.splitlines() if re.match(r"^(E[123]-VIOLATION|C20 violation)", l)]
        meta.setdefault("property", prop)
        if not isinstance(meta.get("runs"), dict):  # a hand-written list of earlier runs: keep it, do not stop after the check has run
            meta["runs"] = {"earlier": meta["runs"]} if meta.get("runs") else {}
        meta["runs"][tier] = {
            "procedure": "git -C /repo apply %s; ./check %s %s; git -C /repo checkout -- ." % (os.path.relpath(patch_of(i), VERIF), prop, tier),
            "repo_head": sh("git rev-parse --short HEAD", REPO)[1].strip(),
            "verif_head": sh("git rev-parse --short HEAD", VERIF)[1].strip(),
            "exit_code": rc,
            "detected": rc == 1 and bool(vio),
            **({"silent": rc == 0 and not vio} if neutral else {}),
            "violation_line": vio[0] if vio else None,
            "first_reports": [re.sub(r"replay\S*=\S+", "", l).strip()[:300] for l in first[:3]],
            "wall_s": round(wall, 1),
        }
        json.dump(meta, open(mp, "w"), indent=1)
        verdict = ("SILENT" if rc == 0 and not vio else "ALARM" if rc == 1 else "ERROR") if neutral else ("DETECTED" if rc == 1 and vio else "MISSED" if rc == 0 else "ERROR")
        print("%-48s %s %s rc=%d %.0fs %s" % (i, prop, tier, rc, wall, verdict), flush=True)
        summary.append((i, rc))
    return 0


if __name__ == "__main__":
    sys.exit(main())
