#!/bin/bash
# try_mutant_snap.sh <seeded-dir-name|path-to-patch> <property> [quick|thorough]
#
# Development helper: run a check against a breaking change WITHOUT touching
# /repo or /verif: the patch is applied in a scratch worktree of /repo, and the
# check runs from a snapshot copy of /verif with VERIF_REPO pointing there.
# (The registered way -- apply to /repo, run ./check, undo -- is bin/run_seeded.sh.)
set -u
name=$1; prop=$2; tier=${3:-quick}
if [ -f "$name" ]; then patch=$(readlink -f "$name"); name=$(basename "$name" .diff); else patch=/verif/seeded/$name/patch.diff; fi
id=$$
snap=/tmp/vsnap.$id; wt=/tmp/mwt.$id
mkdir -p /verif/out/mutants
rsync -a --exclude sim/target --exclude out --exclude .git --exclude replays /verif/ $snap/ || exit 2
git -C /repo worktree add -q --detach $wt HEAD || exit 2
cp /repo/Cargo.lock $wt/ 2>/dev/null; git -C $wt apply "$patch" || { echo "patch does not apply"; git -C /repo worktree remove --force $wt; rm -rf $snap; exit 2; }
start=$(date +%s)
( cd $snap && VERIF_REPO=$wt ./check $prop $tier ) > /verif/out/mutants/$name.$tier.log 2>&1
rc=$?
end=$(date +%s)
cp $snap/evidence/$prop.json /verif/out/mutants/$name.$tier.evidence.json 2>/dev/null
mkdir -p /verif/out/mutants/replays.$name; cp -r $snap/replays/. /verif/out/mutants/replays.$name/ 2>/dev/null
git -C /repo worktree remove --force $wt
rm -rf $snap
echo "$name $prop $tier rc=$rc wall=$((end-start))s $(grep -m1 '^VIOLATION' /verif/out/mutants/$name.$tier.log)"
exit $rc
