#!/usr/bin/env python3
"""Keep a confirmed breaking change: copy it from its scratch worktree into seeded/<id>/.

  adopt_seeded.py <worktree> <id> <property> <demo-kind> <demo-cmd> <breaks> <needs>

Requires <worktree>/mutant/{patch.diff,confirm.json} with confirm.json["confirmed"] true
(written by bin/confirm_mutant.py). Copies patch.diff, the demonstration (mutant/demo*),
the author's notes (as README.md) and confirm.json, and writes meta.json.
With --neutral the source is <worktree>/neutral/ and the target neutral/<id>/.
"""
import glob, json, os, shutil, sys

VERIF = os.path.dirname(os.path.dirname(os.path.abspath(__file__)))


def main():
    a = sys.argv[1:]
    neutral = False
    if a and a[0] == "--neutral":
        neutral = True
        a.pop(0)
    wt, sid, prop, kind, cmd, breaks, needs = a[:7]
    src = os.path.join(wt, "neutral" if neutral else "mutant")
    dst = os.path.join(VERIF, "neutral" if neutral else "seeded", sid)
    os.makedirs(os.path.join(dst, "demo"), exist_ok=True)
    shutil.copy(os.path.join(src, "patch.diff"), os.path.join(dst, "patch.diff"))
    for f in glob.glob(os.path.join(src, "*")):
        b = os.path.basename(f)
        if b in ("patch.diff", "confirm.json") or os.path.isdir(f) or os.path.getsize(f) > 400_000:
            continue
        if b in ("notes.md", "argument.md"):
            shutil.copy(f, os.path.join(dst, "README.md"))
        else:
            shutil.copy(f, os.path.join(dst, "demo", b))
    meta = {"id": sid, "property": prop, "breaks" if not neutral else "refactoring": breaks,
            "needs_to_manifest" if not neutral else "why_it_keeps_the_property": needs,
            "origin": "written by an independent sub-agent that saw only the property text and its own scratch worktree of /repo (nothing from /verif)"}
    if not neutral:
        c = json.load(open(os.path.join(src, "confirm.json")))
        if not c.get("confirmed"):
            print("not confirmed:", c)
            return 1
        shutil.copy(os.path.join(src, "confirm.json"), os.path.join(dst, "confirm.json"))
        meta["confirmed_by_me"] = {
            "how": "bin/confirm_mutant.py in a scratch worktree: baseline suite on the clean tree, demo passes; patch applied: baseline suite identical (2 runs), demo fails",
            "demo_kind": kind, "demo_cmd": cmd, "clean_demo_rc": c.get("clean_demo_rc"), "patched_demo_rc": c.get("patched_demo_rc"),
            "suite_clean": c.get("clean_suite"), "suite_patched_identical": all(s == c.get("clean_suite") for s in c.get("patched_suite", [])),
            "confirmed": True}
    else:
        meta["equivalence_test_cmd"] = cmd
    mp = os.path.join(dst, "meta.json")
    if os.path.exists(mp):
        old = json.load(open(mp))
        if "runs" in old:
            meta["runs"] = old["runs"]
    json.dump(meta, open(mp, "w"), indent=1)
    print("adopted", dst)
    return 0


if __name__ == "__main__":
    sys.exit(main())
