#!/bin/bash
# selftest_replay.sh -- end-to-end proof that a violation's replay file reproduces it.
#
# For one seeded change per property: run the quick check against the changed tree (scratch
# worktree + snapshot of /verif, /repo untouched), take the replay path from the VIOLATION line,
# then   ./check replay <file>   must exit 1 on the changed tree (twice, identically) and 0 on
# the unchanged tree. Results are appended to out/selftest_replay.log.
set -u
cd /verif
mkdir -p out
log=out/selftest_replay.log
: > $log
fail=0
for spec in "s01_c09_faces_per_thread_buffers C09" "s08_c20_epos6_incremental_support C20" "s06_c20_rring_zface_clip C20" "s14_c09_with_faces_thread_local_bins C09"; do
  set -- $spec; id=$1; prop=$2
  snap=/tmp/vsnap.rp.$$; wt=/tmp/mwt.rp.$$
  rsync -a --exclude sim/target --exclude out --exclude .git --exclude replays /verif/ $snap/
  git -C /repo worktree add -q --detach $wt HEAD; cp /repo/Cargo.lock $wt/
  git -C $wt apply /verif/seeded/$id/patch.diff
  ( cd $snap && VERIF_SKIP_E2=1 VERIF_REPO=$wt ./check $prop quick ) > $snap/run.log 2>&1
  rc=$?
  rp=$(grep -m1 '^VIOLATION' $snap/run.log | sed 's/.*replay=//')
  echo "$id: check rc=$rc replay=$rp" | tee -a $log
  if [ $rc -ne 1 ] || [ -z "$rp" ]; then echo "  FAIL: no violation reported" | tee -a $log; fail=1; else
    ( cd $snap && VERIF_REPO=$wt ./check replay $rp ) > $snap/r1.log 2>&1; r1=$?
    ( cd $snap && VERIF_REPO=$wt ./check replay $rp ) > $snap/r2.log 2>&1; r2=$?
    a=$(grep -h '^replayed' $snap/r1.log | head -1); b=$(grep -h '^replayed' $snap/r2.log | head -1)
    echo "  changed tree: replay rc=$r1,$r2 identical_output=$([ "$a" == "$b" ] && echo yes || echo no)" | tee -a $log
    echo "    $a" | cut -c1-300 | tee -a $log
    git -C $wt checkout -q -- .
    ( cd $snap && VERIF_REPO=$wt ./check replay $rp ) > $snap/r3.log 2>&1; r3=$?
    echo "  unchanged tree: replay rc=$r3 ($(grep -h 'REPLAY-NO-VIOLATION' $snap/r3.log | head -1 | cut -c1-60))" | tee -a $log
    if [ $r1 -ne 1 ] || [ $r2 -ne 1 ] || [ $r3 -ne 0 ] || [ "$a" != "$b" ]; then echo "  FAIL" | tee -a $log; fail=1; fi
  fi
  git -C /repo worktree remove --force $wt; rm -rf $snap
done
echo "selftest_replay: $([ $fail -eq 0 ] && echo PASS || echo FAIL)" | tee -a $log
exit $fail
