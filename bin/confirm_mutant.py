#!/usr/bin/env python3
"""Confirm a candidate breaking change in its scratch worktree.

  confirm_mutant.py <worktree> <demo-kind> <demo-file-or-diff> <cargo test/run args...>

The worktree must contain mutant/patch.diff. Steps (each recorded in
<worktree>/mutant/confirm.json):
  1. clean tree (patch reverted): baseline suite, demo must PASS
  2. patched tree: baseline suite must give the same result, demo must FAIL
demo-kind: "test" (copy file to tests/), "example" (copy to examples/), "diff" (git apply)
"""
import json, os, re, subprocess, sys, shutil

ENV = dict(os.environ, CARGO_NET_OFFLINE="true", CARGO_TERM_COLOR="never")


def sh(cmd, cwd, timeout=3600):
    p = subprocess.run(cmd, cwd=cwd, env=ENV, shell=isinstance(cmd, str), stdout=subprocess.PIPE, stderr=subprocess.STDOUT, text=True, timeout=timeout)
    return p.returncode, p.stdout


def suite(wt):
    rc, out = sh("cargo test --offline --no-fail-fast", wt)
    res = re.findall(r"test result: (\w+)\. (\d+) passed; (\d+) failed", out)
    failed = sorted(set(re.findall(r"^test (\S+) \.\.\. FAILED", out, re.M)))
    return {"results": res, "failed": failed}


def main():
    wt, kind, demo = sys.argv[1], sys.argv[2], sys.argv[3]
    run = " ".join(sys.argv[4:])
    patch = os.path.join(wt, "mutant", "patch.diff")
    # normalise: start from a clean tree
    sh("git reset -q && git checkout -- . && git clean -fdq -e mutant -e target", wt)
    log = {}

    def install():
        if kind == "diff":
            return sh("git apply %s" % demo, wt)
        dst = os.path.join(wt, "tests" if kind == "test" else "examples")
        os.makedirs(dst, exist_ok=True)
        shutil.copy(os.path.join(wt, demo), dst)
        return 0, ""

    def uninstall():
        sh("git reset -q && git checkout -- . && git clean -fdq -e mutant -e target", wt)

    # 1. clean
    log["clean_suite"] = suite(wt)
    install()
    rc, out = sh(run, wt)
    log["clean_demo_rc"] = rc
    log["clean_demo_tail"] = out[-600:]
    uninstall()
    # 2. patched
    rc, out = sh("git apply %s" % patch, wt)
    log["patch_applies"] = rc == 0
    suites = [suite(wt) for _ in range(2)]
    log["patched_suite"] = suites
    install()
    rc, out = sh(run, wt)
    log["patched_demo_rc"] = rc
    log["patched_demo_tail"] = out[-1200:]
    uninstall()
    sh("git apply %s" % patch, wt)
    ok = (log["clean_demo_rc"] == 0 and log["patched_demo_rc"] != 0 and log["patch_applies"]
          and all(s == log["clean_suite"] for s in suites))
    log["confirmed"] = ok
    log["demo_cmd"] = run
    json.dump(log, open(os.path.join(wt, "mutant", "confirm.json"), "w"), indent=1)
    print(wt, "CONFIRMED" if ok else "NOT-CONFIRMED", log["clean_suite"], log["clean_demo_rc"], log["patched_demo_rc"])
    shutil.rmtree(os.path.join(wt, "target"), ignore_errors=True)


if __name__ == "__main__":
    main()
