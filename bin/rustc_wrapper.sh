#!/bin/sh
# RUSTC_WRAPPER of the /verif/sim workspace: the copies of the library under test that run
# under a scheduler get a call to __sanitizer_cov_trace_pc_guard at every basic block
# (LLVM's SanitizerCoverage pass; stable rustc). Nothing else is instrumented.
rustc="$1"; shift
case " $* " in
  *" --crate-name mv_sim "*|*" --crate-name mv_real "*|*" --crate-name bbtarget "*)
    exec "$rustc" "$@" -C passes=sancov-module -C llvm-args=-sanitizer-coverage-level=3 -C llvm-args=-sanitizer-coverage-trace-pc-guard ;;
  *) exec "$rustc" "$@" ;;
esac
