#!/bin/sh
# RUSTC_WRAPPER of the /verif/sim workspace: the copies of the library under test that run
# under a scheduler get a call to __sanitizer_cov_trace_pc_guard at every basic block
# (LLVM's SanitizerCoverage pass; stable rustc) and a call to __tsan_atomic* in place of every atomic
# operation (LLVM's ThreadSanitizer pass restricted to atomics; the attribute it looks for is put on
# by the forceattrs pass). Both families of symbols are defined by sim/bbguard. Nothing else is
# instrumented.
rustc="$1"; shift
case " $* " in
  *" --crate-name mv_sim "*|*" --crate-name mv_real "*|*" --crate-name bbtarget "*|*" --crate-name surf_sim "*|*" --crate-name surf_real "*)
    exec "$rustc" "$@" -C "passes=sancov-module forceattrs tsan" \
      -C llvm-args=-sanitizer-coverage-level=3 -C llvm-args=-sanitizer-coverage-trace-pc-guard \
      -C llvm-args=-force-attribute=sanitize_thread -C llvm-args=-tsan-instrument-memory-accesses=0 \
      -C llvm-args=-tsan-instrument-func-entry-exit=0 -C llvm-args=-tsan-instrument-memintrinsics=0 ;;
  *) exec "$rustc" "$@" ;;
esac
