#!/bin/bash
# try_mutant.sh <seeded-dir-name> <property> [quick|thorough]  -- apply to /repo, run the check, undo.
set -u
d=/verif/seeded/$1; prop=$2; tier=${3:-quick}
cd /repo || exit 2
if [ -n "$(git status --porcelain)" ]; then echo "/repo not clean"; exit 2; fi
git apply "$d/patch.diff" || exit 2
cd /verif
mkdir -p out/mutants
cp evidence/$prop.json out/mutants/.evidence_backup_$prop.json
start=$(date +%s)
./check $prop $tier > out/mutants/$1.$tier.log 2>&1
rc=$?
end=$(date +%s)
cp evidence/$prop.json out/mutants/$1.$tier.evidence.json
cp out/mutants/.evidence_backup_$prop.json evidence/$prop.json
git -C /repo checkout -- . 
git -C /repo clean -fdq
echo "$1 $prop $tier rc=$rc wall=$((end-start))s $(grep -m1 '^VIOLATION' out/mutants/$1.$tier.log)"
