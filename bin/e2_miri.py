#!/usr/bin/env python3
"""Engine E2: the library with the REAL rayon / crossbeam / ahash under Miri.

Miri is a deterministic interpreter: with isolation on, thread scheduling,
getrandom (hence ahash's keys) and allocation addresses derive from
-Zmiri-seed, so one seed is one exactly repeatable execution; data races and
undefined behaviour are reported as errors.

  e2_miri.py setup 0 <repo>
  e2_miri.py quick|thorough <verif_seed> <repo>          C09
  e2_miri.py quick-c20|thorough-c20 <verif_seed> <repo>  C20 (real ahash order)
  e2_miri.py replay <file> <repo>
Exit 0 held / 1 violation (E2-VIOLATION line) / 2 error.
"""
import json, os, re, subprocess, sys, time

HERE = os.path.dirname(os.path.abspath(__file__))
ROOT = os.path.dirname(HERE)
SIM = os.path.join(ROOT, "sim")
OUT = os.path.join(ROOT, "out")
REPLAYS = os.path.join(ROOT, "replays")
TARGET = os.path.join(SIM, "target", "miri_t")
BASE_FLAGS = ["-Zmiri-tree-borrows", "-Zmiri-permissive-provenance", "-Zmiri-ignore-leaks", "-Zmiri-deterministic-floats"]


def miri(flags, argv, timeout):
    env = dict(os.environ)
    env.pop("RUSTC_WRAPPER", None)  # cargo-miri installs its own; Miri interprets MIR, LLVM passes do not apply
    env["CARGO_NET_OFFLINE"] = "true"
    env["MIRIFLAGS"] = " ".join(BASE_FLAGS + flags)
    cmd = ["cargo", "+nightly", "miri", "run", "--offline", "-q", "-p", "miri_drv", "--target-dir", TARGET, "--"] + [str(a) for a in argv]
    t = time.time()
    try:
        p = subprocess.run(cmd, cwd=SIM, env=env, stdout=subprocess.PIPE, stderr=subprocess.STDOUT, text=True, timeout=timeout)
        return p.returncode, p.stdout, time.time() - t
    except subprocess.TimeoutExpired as e:
        return -9, (e.stdout or "") if isinstance(e.stdout, str) else "", time.time() - t


def describe_failure(out):
    for l in out.splitlines():
        if l.startswith("E2-MISMATCH"):
            return l
    for l in out.splitlines():
        if l.startswith("error"):
            return l
    return "miri exited with an error"


def batch(kind, flags, argv, lo, hi, timeout, prop):
    """Run seeds lo..hi of one configuration. Returns dict(result) and optional violation."""
    rc, out, wall = miri(flags + ["-Zmiri-many-seeds=%d..%d" % (lo, hi)], argv, timeout)
    ok = len([l for l in out.splitlines() if l.startswith("E2-OK")])
    exact = [int(m.group(1)) for m in re.finditer(r"exact_predicate_calls=(\d+)", out)]
    digests = sorted({m.group(1) for m in re.finditer(r"digest=([0-9a-f]+)", out)} | {m.group(1) for m in re.finditer(r"radius_bits=([0-9a-f]+)", out)})
    res = {"mode": kind, "argv": [str(a) for a in argv], "flags": flags, "seeds": [lo, hi], "ok_lines": ok, "wall_s": round(wall, 1),
           "distinct_result_digests": len(digests), "rc": rc,
           "exact_predicate_calls_max_per_execution": max(exact) if exact else 0}
    viol = None
    if rc == -9:
        res["timeout"] = True
    elif rc != 0:
        m = re.search(r"FAILING SEED: (\d+)", out)
        seed = int(m.group(1)) if m else lo
        what = describe_failure(out)
        os.makedirs(REPLAYS, exist_ok=True)
        path = os.path.join(REPLAYS, "%s-E2-miri-%s-seed%d.json" % (prop, "_".join(str(a) for a in argv[:4]), seed))
        json.dump({"property": prop, "engine": "E2:miri", "miri_seed": seed, "miri_flags": BASE_FLAGS + flags, "argv": [str(a) for a in argv],
                   "what": what, "note": "replay = the same Miri seed, flags and arguments; one seed is one execution"}, open(path, "w"), indent=1)
        viol = (path, what, seed)
    return res, viol, out


def c09(tier, vseed):
    os.makedirs(os.path.join(OUT, "C09"), exist_ok=True)
    quick = tier == "quick"
    plans = []
    if quick:
        # two small batches: the plain build, and a masked integrator route with spurious CAS failures in rayon's deques
        plans.append((["-Zmiri-preemption-rate=0.2"], ["c09", vseed, 0, 3, 6, "build"], 0, 5))
        # (the second input is one on which the exact big-integer predicate decides - the 8 corners of a cube,
        # every cell active - so that the code behind it runs under the race detector too; E2-OK lines carry the count)
        plans.append((["-Zmiri-preemption-rate=0.05", "-Zmiri-compare-exchange-weak-failure-rate=0.8"],
                      ["c09", vseed, 1, 2, 8, "build", "3n:lattice/none"], 100, 103))
    else:
        # Miri costs 20-60 s of CPU per seed for 5-8 generators, and `with_faces` (seven parallel
        # sections plus the integrals on the result) ten times that: few seeds for it, more for the rest
        nb = int(os.environ.get("VERIF_E2_INPUTS", "10"))
        per = int(os.environ.get("VERIF_E2_SEEDS", "24"))
        ops = ["build", "integrator_to_voronoi", "face_integrals_sym", "cell_integrals", "build", "face_integrals",
               "with_faces", "face_integrals_sym", "integrator_to_voronoi", "build"]
        rates = ["0.01", "0.1", "0.5"]
        for i in range(nb):
            flags = ["-Zmiri-preemption-rate=" + rates[i % 3]]
            if i % 2 == 1:
                flags.append("-Zmiri-compare-exchange-weak-failure-rate=0.8")
            if i % 4 == 2:
                flags.append("-Zmiri-address-reuse-cross-thread-rate=0.5")
            op = ops[i % len(ops)]
            heavy = op == "with_faces"
            n = 5 if heavy else 5 + (i % 4)
            seeds = max(4, per // 3) if heavy else per
            argv = ["c09", vseed, i, 2 + i % 3, n, op]
            # three of the inputs are ones on which the exact predicate decides (lattices, every cell active)
            want = {0: ("3n:lattice/none", 8), 3: ("2p:lattice/none", 9), 6: ("3p:centered_lattice/none", 4)}.get(i)
            if want and not heavy:
                argv = ["c09", vseed, i, 2 + i % 3, want[1], op, want[0]]
            plans.append((flags, argv, i * 1000, i * 1000 + seeds))
    results, viols = [], []
    execs = 0
    flagcount = {}
    for flags, argv, lo, hi in plans:
        r, v, out = batch("c09", flags, argv, lo, hi, 3000, "C09")
        results.append(r)
        if r.get("timeout"):
            continue
        execs += hi - lo
        for f in flags:
            flagcount[f] = flagcount.get(f, 0) + (hi - lo)
        if v:
            viols.append(v)
            break
    sample = [l for l in out.splitlines() if l.startswith("E2-OK")][:2] if plans else []
    j = {"engine": "E2", "executions": execs, "distinct_schedules": execs, "batches": results, "flags": flagcount, "samples": sample,
         "note": "every execution is one Miri seed: real rayon-core/crossbeam/meshless_voronoi interpreted, isolation on, race + UB detection on"}
    json.dump(j, open(os.path.join(OUT, "C09", "e2.json"), "w"), indent=1)
    for path, what, seed in viols:
        print("E2-VIOLATION property=C09 engine=E2 op=miri component=%s miri_seed=%d replay=%s" % (re.sub(r"\s+", "_", what)[:160], seed, path))
    return 1 if viols else 0


def c20(tier, vseed):
    os.makedirs(os.path.join(OUT, "C20"), exist_ok=True)
    quick = tier.startswith("quick")
    nseeds = 64 if quick else int(os.environ.get("VERIF_E2_C20_SEEDS", "512"))
    sets = 6 if quick else 12
    r, v, out = batch("c20", [], ["c20", vseed, 0, sets, 24], 0, nseeds, 3000, "C20")
    j = {"engine": "E2", "executions": 0 if r.get("timeout") else nseeds, "point_sets_per_execution": sets, "batch": r,
         "samples": [l for l in out.splitlines() if l.startswith("E2-OK")][:2],
         "note": "no hook registered: the order is what the real ahash produces from keys drawn from Miri's seeded getrandom"}
    json.dump(j, open(os.path.join(OUT, "C20", "e2.json"), "w"), indent=1)
    if v:
        print("E2-VIOLATION property=C20 engine=E2 what=%s miri_seed=%d replay=%s" % (re.sub(r"\s+", "_", v[1])[:160], v[2], v[0]))
        return 1
    return 0


def replay(path):
    j = json.load(open(path))
    flags = [f for f in j["miri_flags"] if f not in BASE_FLAGS]
    rc, out, wall = miri(flags + ["-Zmiri-seed=%d" % j["miri_seed"]], j["argv"], 3000)
    if rc != 0:
        print("replayed: " + describe_failure(out))
        print("VIOLATION property=%s replay=%s" % (j["property"], path))
        return 1
    print("REPLAY-NO-VIOLATION property=%s replay=%s" % (j["property"], path))
    return 0


def setup():
    env = dict(os.environ)
    env.pop("RUSTC_WRAPPER", None)
    env["CARGO_NET_OFFLINE"] = "true"
    p = subprocess.run(["cargo", "+nightly", "miri", "setup"], cwd=SIM, env=env, stdout=subprocess.PIPE, stderr=subprocess.STDOUT, text=True)
    print(p.stdout[-1500:])
    if p.returncode != 0:
        return 2
    rc, out, wall = miri(["-Zmiri-seed=0"], ["c20", 1, 0, 1, 8], 3000)
    print("miri warm-up: rc=%d in %.0fs" % (rc, wall))
    if rc != 0:
        print(out[-3000:])
        return 2
    return 0


def main():
    a = sys.argv[1:]
    if not a:
        print(__doc__)
        return 2
    if a[0] == "setup":
        return setup()
    if a[0] == "replay":
        return replay(a[1])
    vseed = int(a[1])
    if a[0] in ("quick", "thorough"):
        return c09(a[0], vseed)
    if a[0] in ("quick-c20", "thorough-c20"):
        return c20(a[0], vseed)
    return 2


if __name__ == "__main__":
    sys.exit(main())
