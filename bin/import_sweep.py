#!/usr/bin/env python3
"""Copy the outcomes of a background sweep (bin/run_seeded.py run from a `vp run` snapshot of /verif against a
clone of /repo) into the meta.json files of /verif.

  import_sweep.py <snapshot-verif-dir> <note>

Only the `runs.<tier>` entries are copied; each gets a `via` field saying where it came from, because such a
run did not use /repo itself (the registered procedure does; `bin/run_seeded.py` without VERIF_REPO).
"""
import json, os, sys

VERIF = os.path.dirname(os.path.dirname(os.path.abspath(__file__)))


def main():
    snap, note = sys.argv[1], sys.argv[2]
    n = 0
    for kind in ("seeded", "neutral"):
        d = os.path.join(snap, kind)
        for i in sorted(os.listdir(d)):
            src = os.path.join(d, i, "meta.json")
            dst = os.path.join(VERIF, kind, i, "meta.json")
            if not (os.path.exists(src) and os.path.exists(dst)):
                continue
            a, b = json.load(open(src)), json.load(open(dst))
            old = json.load(open(dst)).get("runs", {})
            changed = False
            for tier, r in a.get("runs", {}).items():
                if old.get(tier, {}).get("verif_head") == r.get("verif_head") and old.get(tier, {}).get("wall_s") == r.get("wall_s"):
                    continue
                # only entries the sweep itself wrote (its verif_head), not ones it inherited
                r = dict(r)
                r["via"] = note
                b.setdefault("runs", {})[tier] = r
                changed = True
            if changed:
                json.dump(b, open(dst, "w"), indent=1)
                n += 1
    print("imported", n)


if __name__ == "__main__":
    main()
